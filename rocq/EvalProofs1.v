(* EvalProofs1.v — C18, part 1: board rotation (flip), the unbounded mathematical
   material sum matZ, its relation to the checked i16 loop player_material, and the
   antisymmetry of the static score under colour swap + 180-degree rotation.

   All facts about the generated tables (gen/EvalTables.v) are obtained by complete
   vm_compute sweeps over the 64 squares / 6 pieces / 2 phases / 2 colours, never by
   quoting table values, so the file re-checks against whatever the translator emits.

   Conventions chosen here:
   * flip_board swaps white/black, rotates every bitboard (including occ) by 180
     degrees (bit i -> bit 63-i), and ALSO flips `turn`; every other field is kept.
     None of the kept/flipped non-piece fields is read by the static score.
   * bb64 x := x < 2^64.  The only place where it is needed is is_endgame, which tests
     `is_empty` of the two queen bitboards (a bitboard with only bits >= 64 set is not
     empty but its rotation is).  Model boards always satisfy it. *)
From ChessV Require Import Eval.
From Coq Require Import Lia ZArith NArith List Bool.
Import ListNotations.
Arguments N.add : simpl never.
Arguments N.sub : simpl never.
Arguments N.mul : simpl never.
Arguments N.eqb : simpl never.
Arguments N.ltb : simpl never.
Arguments N.leb : simpl never.
Arguments N.shiftl : simpl never.
Arguments N.shiftr : simpl never.
Arguments N.land : simpl never.
Arguments N.lor : simpl never.
Arguments N.lxor : simpl never.
Arguments N.ldiff : simpl never.
Arguments N.testbit : simpl never.
Open Scope N_scope.

(* ------------------------------------------------------------------------- *)
(** * Squares *)

Lemma EvalAux_squares_seq : squares = map N.of_nat (seq 0 64).
Proof. reflexivity. Qed.

Lemma EvalAux_in_squares : forall i, In i squares <-> i < 64.
Proof.
  intro i. rewrite EvalAux_squares_seq, in_map_iff. split.
  - intros [n [Hn Hin]]. apply in_seq in Hin. lia.
  - intro H. exists (N.to_nat i). split; [apply N2Nat.id|]. apply in_seq. lia.
Qed.

Lemma EvalAux_squares_rev : map (fun i => 63 - i) squares = rev squares.
Proof. reflexivity. Qed.

(* ------------------------------------------------------------------------- *)
(** * Sums over lists *)

Section SumL.
Context {A : Type}.

Fixpoint sumL (f : A -> Z) (l : list A) : Z :=
  match l with
  | [] => 0%Z
  | a :: l' => (f a + sumL f l')%Z
  end.

Lemma sumL_app : forall f l1 l2, sumL f (l1 ++ l2) = (sumL f l1 + sumL f l2)%Z.
Proof.
  intros f l1 l2. induction l1 as [|a l1 IH]; cbn [sumL app]; [reflexivity|]. rewrite IH. lia.
Qed.

Lemma sumL_rev : forall f l, sumL f (rev l) = sumL f l.
Proof.
  intros f l. induction l as [|a l IH]; cbn [sumL rev]; [reflexivity|].
  rewrite sumL_app, IH. cbn [sumL]. lia.
Qed.

Lemma sumL_ext_in : forall f g l, (forall a, In a l -> f a = g a) -> sumL f l = sumL g l.
Proof.
  intros f g l. induction l as [|a l IH]; intro H; cbn [sumL]; [reflexivity|].
  rewrite (H a (or_introl eq_refl)), IH; [reflexivity|].
  intros a' Ha'. apply H. right. exact Ha'.
Qed.

Lemma sumL_nonneg : forall f l, (forall a, In a l -> (0 <= f a)%Z) -> (0 <= sumL f l)%Z.
Proof.
  intros f l. induction l as [|a l IH]; intro H; cbn [sumL]; [lia|].
  assert (0 <= f a)%Z by (apply H; left; reflexivity).
  assert (0 <= sumL f l)%Z by (apply IH; intros a' Ha'; apply H; right; exact Ha').
  lia.
Qed.

(* conditional sums lie between count*lo and count*hi *)
Lemma sumL_cond_bounds : forall (cnd : A -> bool) (g : A -> Z) (lo hi : Z) l,
  (forall a, In a l -> (lo <= g a <= hi)%Z) ->
  (sumL (fun a => if cnd a then 1 else 0) l * lo
     <= sumL (fun a => if cnd a then g a else 0) l
     <= sumL (fun a => if cnd a then 1 else 0) l * hi)%Z.
Proof.
  intros cnd g lo hi l. induction l as [|a l IH]; intro H; cbn [sumL]; [lia|].
  assert (Ha : (lo <= g a <= hi)%Z) by (apply H; left; reflexivity).
  assert (IH' := IH (fun a' Ha' => H a' (or_intror Ha'))).
  destruct (cnd a); lia.
Qed.

Lemma EvalAux_length_filter_sum : forall (f : A -> bool) l,
  Z.of_nat (length (filter f l)) = sumL (fun a => if f a then 1 else 0)%Z l.
Proof.
  intros f l. induction l as [|a l IH]; cbn [filter sumL length]; [reflexivity|].
  destruct (f a); cbn [length]; lia.
Qed.
End SumL.

Lemma sumL_map : forall {A B} (g : A -> B) (f : B -> Z) l,
  sumL f (map g l) = sumL (fun a => f (g a)) l.
Proof.
  intros A B g f l. induction l as [|a l IH]; cbn [sumL map]; [reflexivity|]. rewrite IH. reflexivity.
Qed.

(* the sum over the 64 squares is invariant under the re-indexing i -> 63 - i *)
Lemma sumL_flip_squares : forall f : N -> Z, sumL (fun i => f (63 - i)) squares = sumL f squares.
Proof.
  intro f. rewrite <- (sumL_map (fun i => 63 - i) f), EvalAux_squares_rev. apply sumL_rev.
Qed.

(* ------------------------------------------------------------------------- *)
(** * Bit-level facts and the 180-degree rotation *)

Lemma EvalAux_testbit_bit : forall i n, N.testbit (bit i) n = (i =? n).
Proof. intros i n. unfold bit. rewrite N.shiftl_1_l. apply N.pow2_bits_eqb. Qed.

(* the bitboard whose members are the squares satisfying f *)
Definition EvalAux_build (f : N -> bool) : N :=
  fold_right (fun i acc => if f i then N.lor (bit i) acc else acc) 0 squares.

Lemma EvalAux_mem_build_gen : forall (f : N -> bool) l n,
  N.testbit (fold_right (fun i acc => if f i then N.lor (bit i) acc else acc) 0 l) n
  = existsb (fun i => (i =? n) && f i) l.
Proof.
  intros f l n. induction l as [|i l IH]; cbn [fold_right existsb].
  - apply N.bits_0.
  - destruct (f i) eqn:Ef.
    + rewrite N.lor_spec, IH, EvalAux_testbit_bit, andb_true_r. reflexivity.
    + rewrite IH, andb_false_r. reflexivity.
Qed.

Lemma EvalAux_mem_build : forall f n, mem n (EvalAux_build f) = (n <? 64) && f n.
Proof.
  intros f n. unfold mem, EvalAux_build. rewrite EvalAux_mem_build_gen.
  apply eq_true_iff_eq. rewrite existsb_exists, andb_true_iff, N.ltb_lt. split.
  - intros [i [Hin H]]. apply andb_true_iff in H. destruct H as [H1 H2].
    apply N.eqb_eq in H1. subst i. split; [apply EvalAux_in_squares; exact Hin | exact H2].
  - intros [H1 H2]. exists n. split; [apply EvalAux_in_squares; exact H1|].
    rewrite N.eqb_refl. exact H2.
Qed.

Definition flip_bb (x : N) : N := EvalAux_build (fun i => mem (63 - i) x).
(* conversion must never try to evaluate a symbolic rotation (64-fold nested `if`):
   unfold these two last *)
Strategy 1000 [EvalAux_build flip_bb].

Lemma mem_flip_bb : forall x i, i < 64 -> mem i (flip_bb x) = mem (63 - i) x.
Proof.
  intros x i Hi. unfold flip_bb. rewrite EvalAux_mem_build.
  apply N.ltb_lt in Hi. rewrite Hi. reflexivity.
Qed.

Lemma mem_flip_bb_high : forall x i, 64 <= i -> mem i (flip_bb x) = false.
Proof.
  intros x i Hi. unfold flip_bb. rewrite EvalAux_mem_build.
  apply N.ltb_ge in Hi. rewrite Hi. reflexivity.
Qed.

(* "fits in 64 bits" *)
Definition bb64 (x : N) : Prop := x < TWO64.

Lemma EvalAux_bb64_high : forall x i, bb64 x -> 64 <= i -> mem i x = false.
Proof.
  intros x i Hx Hi. unfold mem, bb64 in *. change TWO64 with (2 ^ 64) in Hx.
  rewrite <- (N.mod_small x (2 ^ 64) Hx). apply N.mod_pow2_bits_high. exact Hi.
Qed.

Lemma EvalAux_high_bb64 : forall x, (forall i, 64 <= i -> mem i x = false) -> bb64 x.
Proof.
  intros x H. unfold bb64. change TWO64 with (2 ^ 64).
  assert (E : x = x mod 2 ^ 64).
  { apply N.bits_inj. intro n. destruct (N.ltb_spec n 64) as [Hn|Hn].
    - rewrite N.mod_pow2_bits_low by exact Hn. reflexivity.
    - rewrite N.mod_pow2_bits_high by exact Hn. apply H. exact Hn. }
  rewrite E. apply N.mod_lt. discriminate.
Qed.

Lemma flip_bb_bb64 : forall x, bb64 (flip_bb x).
Proof. intro x. apply EvalAux_high_bb64. intros i Hi. apply mem_flip_bb_high. exact Hi. Qed.

Lemma EvalAux_testbit_flip_bb : forall x i, i < 64 -> N.testbit (flip_bb x) i = N.testbit x (63 - i).
Proof. intros x i Hi. pose proof (mem_flip_bb x i Hi) as H. unfold mem in H. exact H. Qed.

Lemma EvalAux_testbit_flip_bb_high : forall x i, 64 <= i -> N.testbit (flip_bb x) i = false.
Proof. intros x i Hi. pose proof (mem_flip_bb_high x i Hi) as H. unfold mem in H. exact H. Qed.

Lemma flip_bb_involutive : forall x, bb64 x -> flip_bb (flip_bb x) = x.
Proof.
  intros x Hx. apply N.bits_inj. intro n.
  destruct (N.ltb_spec n 64) as [Hn|Hn].
  - rewrite EvalAux_testbit_flip_bb by exact Hn. rewrite EvalAux_testbit_flip_bb by lia.
    replace (63 - (63 - n)) with n by lia. reflexivity.
  - rewrite EvalAux_testbit_flip_bb_high by exact Hn. symmetry.
    pose proof (EvalAux_bb64_high x n Hx Hn) as H. unfold mem in H. exact H.
Qed.

Lemma flip_bb_ldiff : forall x y, flip_bb (N.ldiff x y) = N.ldiff (flip_bb x) (flip_bb y).
Proof.
  intros x y. apply N.bits_inj. intro n. rewrite N.ldiff_spec.
  destruct (N.ltb_spec n 64) as [Hn|Hn].
  - rewrite !EvalAux_testbit_flip_bb by exact Hn. apply N.ldiff_spec.
  - rewrite !EvalAux_testbit_flip_bb_high by exact Hn. reflexivity.
Qed.

Lemma flip_bb_0 : flip_bb 0 = 0.
Proof. vm_compute. reflexivity. Qed.

Lemma flip_bb_is_empty : forall x, bb64 x -> is_empty (flip_bb x) = is_empty x.
Proof.
  intros x Hx. apply eq_true_iff_eq. unfold is_empty. rewrite !N.eqb_eq. split; intro H.
  - rewrite <- (flip_bb_involutive x Hx), H. apply flip_bb_0.
  - rewrite H. apply flip_bb_0.
Qed.

(* popcount as a sum over the 64 squares *)
Lemma popcount_sum : forall x,
  Z.of_N (popcount x) = sumL (fun i => if mem i x then 1 else 0)%Z squares.
Proof.
  intro x. unfold popcount, bits_of. rewrite nat_N_Z. apply EvalAux_length_filter_sum.
Qed.

Lemma popcount_flip_bb : forall x, popcount (flip_bb x) = popcount x.
Proof.
  intro x. apply N2Z.inj. rewrite !popcount_sum.
  rewrite <- (sumL_flip_squares (fun i => if mem i x then 1 else 0)%Z).
  apply sumL_ext_in. intros i Hi. apply EvalAux_in_squares in Hi.
  rewrite mem_flip_bb by exact Hi. reflexivity.
Qed.

(* ------------------------------------------------------------------------- *)
(** * Flipping piece sets and boards *)

Definition flip_pset (s : pset) : pset :=
  {| pw := flip_bb (pw s); kn := flip_bb (kn s); bi := flip_bb (bi s); rk := flip_bb (rk s);
     qn := flip_bb (qn s); kg := flip_bb (kg s); occ := flip_bb (occ s) |}.

(* colours swapped, every bitboard rotated, side to move swapped; the remaining
   (history / clock / hash) fields are kept: the static score does not read them *)
Definition flip_board (b : board) : board :=
  {| white := flip_pset (black b); black := flip_pset (white b); turn := opp_c (turn b);
     ep_stack := ep_stack b; cr_stack := cr_stack b; hm_stack := hm_stack b;
     fullmove := fullmove b; pos_count := pos_count b; seen_stack := seen_stack b;
     hash := hash b |}.

Definition pset64 (s : pset) : Prop :=
  bb64 (pw s) /\ bb64 (kn s) /\ bb64 (bi s) /\ bb64 (rk s) /\ bb64 (qn s) /\ bb64 (kg s) /\ bb64 (occ s).
Definition board64 (b : board) : Prop := pset64 (white b) /\ pset64 (black b).
(* what the static score actually needs *)
Definition queens64 (b : board) : Prop := bb64 (qn (white b)) /\ bb64 (qn (black b)).

Lemma board64_queens64 : forall b, board64 b -> queens64 b.
Proof. intros b [[_ [_ [_ [_ [H1 _]]]]] [_ [_ [_ [_ [H2 _]]]]]]. split; assumption. Qed.

Lemma locate_flip_pset : forall s p, locate (flip_pset s) p = flip_bb (locate s p).
Proof. intros s p. destruct p; reflexivity. Qed.

Lemma pieces_flip_board : forall b c, pieces (flip_board b) c = flip_pset (pieces b (opp_c c)).
Proof. intros b c. destruct c; reflexivity. Qed.

Lemma flip_pset_pset64 : forall s, pset64 (flip_pset s).
Proof. intro s. unfold pset64, flip_pset; cbn [pw kn bi rk qn kg occ]. repeat split; apply flip_bb_bb64. Qed.

Lemma flip_board_board64 : forall b, board64 (flip_board b).
Proof. intro b. split; apply flip_pset_pset64. Qed.

Lemma flip_board_queens64 : forall b, queens64 (flip_board b).
Proof. intro b. apply board64_queens64, flip_board_board64. Qed.

Lemma flip_pset_involutive : forall s, pset64 s -> flip_pset (flip_pset s) = s.
Proof.
  intros s [H1 [H2 [H3 [H4 [H5 [H6 H7]]]]]]. destruct s as [a1 a2 a3 a4 a5 a6 a7].
  unfold flip_pset; cbn [pw kn bi rk qn kg occ] in *.
  rewrite !flip_bb_involutive by assumption. reflexivity.
Qed.

Lemma flip_board_involutive : forall b, board64 b -> flip_board (flip_board b) = b.
Proof.
  intros b [Hw Hb]. destruct b as [w k t e c h f p s hs].
  unfold flip_board; cbn [white black turn ep_stack cr_stack hm_stack fullmove pos_count seen_stack hash] in *.
  rewrite !flip_pset_involutive by assumption. destruct t; reflexivity.
Qed.

(* ------------------------------------------------------------------------- *)
(** * 1. The two index maps mirror each other *)

Lemma EvalAux_index_mirror_sweep :
  forallb (fun i => bonus_index White i =? bonus_index Black (63 - i)) squares = true.
Proof. vm_compute. reflexivity. Qed.

Theorem index_mirror : forall i, i < 64 -> bonus_index White i = bonus_index Black (63 - i).
Proof.
  intros i Hi. apply EvalAux_in_squares in Hi.
  pose proof (proj1 (forallb_forall _ _) EvalAux_index_mirror_sweep i Hi) as H. cbv beta in H.
  apply N.eqb_eq. exact H.
Qed.

Theorem bonus_mirror : forall p eg i, i < 64 -> bonus p eg White i = bonus p eg Black (63 - i).
Proof. intros p eg i Hi. unfold bonus. rewrite (index_mirror i Hi). reflexivity. Qed.

Corollary bonus_mirror_c : forall p eg c i, i < 64 -> bonus p eg c i = bonus p eg (opp_c c) (63 - i).
Proof.
  intros p eg c i Hi. destruct c; cbn [opp_c].
  - rewrite (bonus_mirror p eg (63 - i)) by lia. replace (63 - (63 - i)) with i by lia. reflexivity.
  - apply bonus_mirror. exact Hi.
Qed.

(* ------------------------------------------------------------------------- *)
(** * 2. The phase flag is invariant under the flip *)

Theorem is_endgame_flip : forall b, queens64 b -> is_endgame (flip_board b) = is_endgame b.
Proof.
  intros b [Hw Hb]. unfold is_endgame. cbv zeta.
  unfold flip_board, flip_pset; cbn [white black qn kg occ]. unfold andn.
  rewrite <- !flip_bb_ldiff, !popcount_flip_bb.
  rewrite (flip_bb_is_empty _ Hw), (flip_bb_is_empty _ Hb).
  destruct (is_empty (qn (white b))); destruct (is_empty (qn (black b)));
  repeat match goal with |- context [?x <=? 1] => destruct (x <=? 1) end; reflexivity.
Qed.

(* ------------------------------------------------------------------------- *)
(** * The unbounded mathematical material sum *)

Definition canon_pieces : list piece := [Pawn; Knight; Bishop; Rook; Queen; King].

Lemma EvalAux_in_canon : forall p, In p canon_pieces.
Proof. intro p. destruct p; unfold canon_pieces; repeat first [ left; reflexivity | right ]. Qed.

(* what one piece of kind p on square i contributes for side c in phase eg *)
Definition addend (eg : bool) (c : color) (p : piece) (i : N) : Z :=
  (material_value p + bonus p eg c i)%Z.
Definition term (s : pset) (eg : bool) (c : color) (p : piece) (i : N) : Z :=
  if mem i (locate s p) then addend eg c p i else 0%Z.
Definition matZ_gen (s : pset) (eg : bool) (c : color) : Z :=
  sumL (fun p => sumL (term s eg c p) squares) canon_pieces.
(* sum over pieces p and squares i with mem i (locate (pieces b c) p) of
   material_value p + bonus p (is_endgame b) c i, in Z, no overflow checks *)
Definition matZ (b : board) (c : color) : Z := matZ_gen (pieces b c) (is_endgame b) c.

(* ALL_PIECES (generated iteration order) enumerates the six pieces once each:
   any sum over it equals the sum over the canonical list. *)
Lemma EvalAux_all_pieces_sum : forall f : piece -> Z, sumL f ALL_PIECES = sumL f canon_pieces.
Proof.
  intro f. let l := eval vm_compute in ALL_PIECES in change ALL_PIECES with l.
  unfold canon_pieces. cbn [sumL]. lia.
Qed.

(* ------------------------------------------------------------------------- *)
(** * 3. Re-indexing: the flipped board's sum for c is the original's for opp_c c *)

Theorem matZ_gen_flip : forall s eg c, matZ_gen (flip_pset s) eg c = matZ_gen s eg (opp_c c).
Proof.
  intros s eg c. unfold matZ_gen. apply sumL_ext_in. intros p _.
  rewrite <- (sumL_flip_squares (term s eg (opp_c c) p)).
  apply sumL_ext_in. intros i Hi. apply EvalAux_in_squares in Hi.
  unfold term. rewrite locate_flip_pset, mem_flip_bb by exact Hi.
  destruct (mem (63 - i) (locate s p)); [|reflexivity].
  unfold addend. rewrite (bonus_mirror_c p eg c i Hi). reflexivity.
Qed.

Theorem matZ_flip : forall b c, queens64 b -> matZ (flip_board b) c = matZ b (opp_c c).
Proof.
  intros b c Hq. unfold matZ. rewrite (is_endgame_flip b Hq), pieces_flip_board. apply matZ_gen_flip.
Qed.

(* ------------------------------------------------------------------------- *)
(** * 4. The checked i16 loop computes matZ *)

Lemma in_i16_true : forall z, (-32768 <= z <= 32767)%Z -> in_i16 z = true.
Proof. intros z H. unfold in_i16. apply andb_true_iff. split; apply Z.leb_le; lia. Qed.

Lemma in_i16_range : forall z, in_i16 z = true -> (-32768 <= z <= 32767)%Z.
Proof. intros z H. unfold in_i16 in H. apply andb_true_iff in H. destruct H as [H1 H2]. apply Z.leb_le in H1, H2. lia. Qed.

Definition pm_step (s : pset) (eg : bool) (c : color) (p : piece) (acc2 : res Z) (i : N) : res Z :=
  let* a := acc2 in
  if mem i (locate s p) then
    let* v := add16 (material_value p) (bonus p eg c i) in
    add16 a v
  else Ok a.
Definition pm_inner (s : pset) (eg : bool) (c : color) (acc : res Z) (p : piece) : res Z :=
  fold_left (pm_step s eg c p) squares acc.

Lemma player_material_unfold : forall b c,
  player_material b c = fold_left (pm_inner (pieces b c) (is_endgame b) c) ALL_PIECES (Ok 0%Z).
Proof. reflexivity. Qed.

Lemma EvalAux_pm_step_ok : forall s eg c p acc i v, pm_step s eg c p acc i = Ok v ->
  exists a, acc = Ok a /\ v = (a + term s eg c p i)%Z /\ (in_i16 a = true -> in_i16 v = true).
Proof.
  intros s eg c p acc i v. unfold pm_step, term, addend.
  destruct acc as [a| |]; cbn [bind]; try discriminate.
  intro H. exists a. split; [reflexivity|]. destruct (mem i (locate s p)).
  - unfold add16 in H.
    destruct (in_i16 (material_value p + bonus p eg c i)) eqn:E1; cbn [bind] in H; try discriminate.
    destruct (in_i16 (a + (material_value p + bonus p eg c i))) eqn:E2; try discriminate.
    injection H as <-. split; [reflexivity | intros _; exact E2].
  - injection H as <-. split; [lia | auto].
Qed.

Lemma EvalAux_pm_inner_ok : forall s eg c p l acc v, fold_left (pm_step s eg c p) l acc = Ok v ->
  exists a, acc = Ok a /\ v = (a + sumL (term s eg c p) l)%Z /\ (in_i16 a = true -> in_i16 v = true).
Proof.
  intros s eg c p l. induction l as [|i l IH]; intros acc v H; cbn [fold_left sumL] in *.
  - exists v. repeat split; [exact H | lia | auto].
  - apply IH in H. destruct H as [a' [H1 [H2 H3]]].
    apply EvalAux_pm_step_ok in H1. destruct H1 as [a [Ha [Hv Hr]]].
    exists a. repeat split; [exact Ha | lia | auto].
Qed.

Lemma EvalAux_pm_outer_ok : forall s eg c ps acc v, fold_left (pm_inner s eg c) ps acc = Ok v ->
  exists a, acc = Ok a /\ v = (a + sumL (fun p => sumL (term s eg c p) squares) ps)%Z
            /\ (in_i16 a = true -> in_i16 v = true).
Proof.
  intros s eg c ps. induction ps as [|p ps IH]; intros acc v H; cbn [fold_left sumL] in *.
  - exists v. repeat split; [exact H | lia | auto].
  - apply IH in H. destruct H as [a' [H1 [H2 H3]]].
    unfold pm_inner in H1. apply EvalAux_pm_inner_ok in H1. destruct H1 as [a [Ha [Hv Hr]]].
    exists a. repeat split; [exact Ha | lia | auto].
Qed.

(* soundness: whatever the loop returns is the mathematical sum (and is an i16) *)
Theorem player_material_ok : forall b c v, player_material b c = Ok v -> v = matZ b c.
Proof.
  intros b c v H. rewrite player_material_unfold in H. apply EvalAux_pm_outer_ok in H.
  destruct H as [a [Ha [Hv _]]]. injection Ha as <-.
  rewrite EvalAux_all_pieces_sum in Hv. unfold matZ, matZ_gen. lia.
Qed.

Lemma player_material_i16 : forall b c v, player_material b c = Ok v -> in_i16 v = true.
Proof.
  intros b c v H. rewrite player_material_unfold in H. apply EvalAux_pm_outer_ok in H.
  destruct H as [a [Ha [_ Hr]]]. injection Ha as <-. apply Hr. reflexivity.
Qed.

(* every single addend value + bonus is strictly positive with the real tables *)
Definition EvalAux_addend_pos_check : bool :=
  forallb (fun eg => forallb (fun c => forallb (fun p => forallb (fun i =>
    (0 <? addend eg c p i)%Z) squares) canon_pieces) [Black; White]) [false; true].

Lemma EvalAux_addend_pos_sweep : EvalAux_addend_pos_check = true.
Proof. vm_compute. reflexivity. Qed.

Theorem addend_pos : forall eg c p i, i < 64 -> (0 < addend eg c p i)%Z.
Proof.
  intros eg c p i Hi. pose proof EvalAux_addend_pos_sweep as H. unfold EvalAux_addend_pos_check in H.
  rewrite forallb_forall in H.
  assert (He : In eg [false; true]) by (destruct eg; cbn [In]; auto).
  specialize (H eg He). cbv beta in H. rewrite forallb_forall in H.
  assert (Hc : In c [Black; White]) by (destruct c; cbn [In]; auto).
  specialize (H c Hc). cbv beta in H. rewrite forallb_forall in H.
  specialize (H p (EvalAux_in_canon p)). cbv beta in H. rewrite forallb_forall in H.
  apply EvalAux_in_squares in Hi. specialize (H i Hi). cbv beta in H.
  apply Z.ltb_lt. exact H.
Qed.

Lemma term_nonneg : forall s eg c p i, In i squares -> (0 <= term s eg c p i)%Z.
Proof.
  intros s eg c p i Hi. apply EvalAux_in_squares in Hi. unfold term.
  destruct (mem i (locate s p)); [|lia]. pose proof (addend_pos eg c p i Hi). lia.
Qed.

Lemma matZ_gen_nonneg : forall s eg c, (0 <= matZ_gen s eg c)%Z.
Proof.
  intros s eg c. unfold matZ_gen. apply sumL_nonneg. intros p _.
  apply sumL_nonneg. intros i Hi. apply term_nonneg. exact Hi.
Qed.

Lemma matZ_nonneg : forall b c, (0 <= matZ b c)%Z.
Proof. intros b c. apply matZ_gen_nonneg. Qed.

Lemma EvalAux_pm_step_complete : forall s eg c p a i,
  (0 <= a)%Z -> (0 <= term s eg c p i)%Z -> (a + term s eg c p i <= 32767)%Z ->
  pm_step s eg c p (Ok a) i = Ok (a + term s eg c p i)%Z.
Proof.
  intros s eg c p a i Ha Ht Hb. unfold pm_step, term, addend in *. cbn [bind].
  destruct (mem i (locate s p)).
  - unfold add16. rewrite in_i16_true by lia. cbn [bind]. rewrite in_i16_true by lia. reflexivity.
  - f_equal. lia.
Qed.

Lemma EvalAux_pm_inner_complete : forall s eg c p l a,
  (0 <= a)%Z -> (forall i, In i l -> (0 <= term s eg c p i)%Z) ->
  (a + sumL (term s eg c p) l <= 32767)%Z ->
  fold_left (pm_step s eg c p) l (Ok a) = Ok (a + sumL (term s eg c p) l)%Z.
Proof.
  intros s eg c p l. induction l as [|i l IH]; intros a Ha Hpos Hb; cbn [fold_left sumL] in *.
  - f_equal. lia.
  - assert (Hi : (0 <= term s eg c p i)%Z) by (apply Hpos; left; reflexivity).
    assert (Hl : (0 <= sumL (term s eg c p) l)%Z)
      by (apply sumL_nonneg; intros j Hj; apply Hpos; right; exact Hj).
    rewrite EvalAux_pm_step_complete by lia.
    rewrite IH; [f_equal; lia | lia | intros j Hj; apply Hpos; right; exact Hj | lia].
Qed.

Lemma EvalAux_pm_outer_complete : forall s eg c ps a,
  (0 <= a)%Z ->
  (a + sumL (fun p => sumL (term s eg c p) squares) ps <= 32767)%Z ->
  fold_left (pm_inner s eg c) ps (Ok a) = Ok (a + sumL (fun p => sumL (term s eg c p) squares) ps)%Z.
Proof.
  intros s eg c ps. induction ps as [|p ps IH]; intros a Ha Hb; cbn [fold_left sumL] in *.
  - f_equal. lia.
  - assert (Hp : (0 <= sumL (term s eg c p) squares)%Z)
      by (apply sumL_nonneg; intros i Hi; apply term_nonneg; exact Hi).
    assert (Hl : (0 <= sumL (fun p => sumL (term s eg c p) squares) ps)%Z).
    { apply sumL_nonneg. intros q _. apply sumL_nonneg. intros i Hi. apply term_nonneg; exact Hi. }
    unfold pm_inner at 2.
    rewrite EvalAux_pm_inner_complete; [| lia | intros i Hi; apply term_nonneg; exact Hi | lia].
    rewrite IH; [f_equal; lia | lia | lia].
Qed.

(* completeness: since all addends are positive, every partial sum lies between 0 and
   the total, so the loop succeeds as soon as the TOTAL fits in an i16 *)
Theorem player_material_complete : forall b c,
  (matZ b c <= 32767)%Z -> player_material b c = Ok (matZ b c).
Proof.
  intros b c H. rewrite player_material_unfold. unfold matZ, matZ_gen in *.
  rewrite <- EvalAux_all_pieces_sum in *.
  rewrite EvalAux_pm_outer_complete; [f_equal; lia | lia | lia].
Qed.

Corollary player_material_iff : forall b c v,
  player_material b c = Ok v <-> (v = matZ b c /\ (matZ b c <= 32767)%Z).
Proof.
  intros b c v. split.
  - intro H. pose proof (player_material_ok b c v H) as E.
    pose proof (in_i16_range v (player_material_i16 b c v H)). split; [exact E | lia].
  - intros [E H]. subst v. apply player_material_complete. exact H.
Qed.

(* ------------------------------------------------------------------------- *)
(** * 6. Antisymmetry of the static score (no material hypothesis needed) *)

Lemma material_score_inv : forall b s, material_score b = Ok s ->
  player_material b White = Ok (matZ b White) /\ player_material b Black = Ok (matZ b Black) /\
  s = (matZ b White - matZ b Black)%Z /\ in_i16 s = true.
Proof.
  intros b s H. unfold material_score in H.
  destruct (player_material b White) as [w| |] eqn:Ew; cbn [bind] in H; try discriminate.
  destruct (player_material b Black) as [k| |] eqn:Ek; cbn [bind] in H; try discriminate.
  unfold sub16 in H. destruct (in_i16 (w - k)) eqn:E; try discriminate. injection H as <-.
  rewrite <- (player_material_ok b White w Ew), <- (player_material_ok b Black k Ek).
  repeat split; assumption.
Qed.

(* If the static score of b is defined, the static score of the flipped board is defined
   too (no overflow on the other summation order) and is exactly its negative. *)
Theorem eval_antisymmetric : forall b s, queens64 b ->
  material_score b = Ok s -> material_score (flip_board b) = Ok (- s)%Z.
Proof.
  intros b s Hq H. apply material_score_inv in H. destruct H as [Hw [Hk [Hs Hr]]].
  pose proof (in_i16_range _ (player_material_i16 _ _ _ Hw)) as Rw.
  pose proof (in_i16_range _ (player_material_i16 _ _ _ Hk)) as Rk.
  pose proof (matZ_nonneg b White) as Pw. pose proof (matZ_nonneg b Black) as Pk.
  unfold material_score.
  rewrite (player_material_complete (flip_board b) White)
    by (rewrite (matZ_flip b White Hq); cbn [opp_c]; lia).
  rewrite (player_material_complete (flip_board b) Black)
    by (rewrite (matZ_flip b Black Hq); cbn [opp_c]; lia).
  cbn [bind]. rewrite (matZ_flip b White Hq), (matZ_flip b Black Hq). cbn [opp_c].
  unfold sub16. rewrite in_i16_true by lia. f_equal. lia.
Qed.

(* the conditional form (both sides assumed defined) *)
Corollary eval_antisymmetric_cond : forall b s s', queens64 b ->
  material_score b = Ok s -> material_score (flip_board b) = Ok s' -> s' = (- s)%Z.
Proof.
  intros b s s' Hq H H'. rewrite (eval_antisymmetric b s Hq H) in H'. injection H' as <-. reflexivity.
Qed.

(* the static score is never an Err, and flipping preserves panicking as well *)
Corollary eval_flip_defined_iff : forall b, board64 b ->
  (exists s, material_score b = Ok s) <-> (exists s, material_score (flip_board b) = Ok s).
Proof.
  intros b Hb. split; intros [s H].
  - exists (- s)%Z. apply eval_antisymmetric; [apply board64_queens64; exact Hb | exact H].
  - exists (- s)%Z. rewrite <- (flip_board_involutive b Hb).
    apply eval_antisymmetric; [apply flip_board_queens64 | exact H].
Qed.

(* ------------------------------------------------------------------------- *)
(** * Non-vacuity *)

Definition ex_white : pset :=   (* Ke1, Qd1, Ra1, Nf3, pawns a2 b2 c4 *)
  {| pw := 0x4000300; kn := 0x200000; bi := 0; rk := 0x1; qn := 0x8; kg := 0x10; occ := 0x4200319 |}.
Definition ex_black : pset :=   (* Kg8, Rf8, Bg7, pawns f7 g6 h7 *)
  {| pw := 0xA0400000000000; kn := 0; bi := 0x40000000000000; rk := 0x2000000000000000; qn := 0;
     kg := 0x4000000000000000; occ := 0x60E0400000000000 |}.
Definition ex_board : board := set_black (set_white board_new ex_white) ex_black.

Example ex_board64 : board64 ex_board.
Proof. unfold board64, pset64, bb64. vm_compute. repeat split. Qed.

Example ex_score_defined : exists s, material_score ex_board = Ok s /\ s <> 0%Z
  /\ material_score (flip_board ex_board) = Ok (- s)%Z.
Proof. eexists. vm_compute. repeat split. discriminate. Qed.

Example ex_flip_bb : flip_bb 0x1 = 0x8000000000000000 /\ flip_bb 0xFF00 = 0x00FF000000000000.
Proof. vm_compute. split; reflexivity. Qed.

Example ex_player_material : player_material ex_board White = Ok (matZ ex_board White)
  /\ player_material ex_board Black = Ok (matZ ex_board Black)
  /\ matZ (flip_board ex_board) White = matZ ex_board Black.
Proof. vm_compute. repeat split. Qed.

Print Assumptions eval_antisymmetric.
Print Assumptions player_material_iff.
Print Assumptions matZ_flip.
