(* Types.v — pieces, colours, moves, outcomes.
   Rust: src/board/piece.rs, color.rs, error.rs, src/chess_move/*.rs *)
From ChessV Require Export Bits.

Inductive piece := Pawn | Knight | Bishop | Rook | Queen | King.
Inductive color := Black | White.

Definition piece_eqb (a b : piece) : bool :=
  match a, b with
  | Pawn, Pawn | Knight, Knight | Bishop, Bishop | Rook, Rook | Queen, Queen | King, King => true
  | _, _ => false
  end.
Definition color_eqb (a b : color) : bool :=
  match a, b with Black, Black | White, White => true | _, _ => false end.
Definition opp_c (c : color) : color := match c with Black => White | White => Black end.

(* `piece as usize`, `color as usize` *)
Definition piece_idx (p : piece) : N :=
  match p with Pawn => 0 | Knight => 1 | Bishop => 2 | Rook => 3 | Queen => 4 | King => 5 end.
Definition color_idx (c : color) : N := match c with Black => 0 | White => 1 end.

Definition opt_piece_eqb (a b : option piece) : bool :=
  match a, b with
  | None, None => true
  | Some x, Some y => piece_eqb x y
  | _, _ => false
  end.
Definition pc_eqb (a b : piece * color) : bool :=
  piece_eqb (fst a) (fst b) && color_eqb (snd a) (snd b).
Definition opt_pc_eqb (a b : option (piece * color)) : bool :=
  match a, b with
  | None, None => true
  | Some x, Some y => pc_eqb x y
  | _, _ => false
  end.

(* ChessMove: squares are bit indices; the `effect` field is carried separately *)
Inductive cmove :=
| Std (from to : N) (cap : option piece)
| Promo (from to : N) (cap : option piece) (pp : piece)
| EnPassant (from to : N)
| Castle (from to : N).

Definition mv_from (m : cmove) : N :=
  match m with Std f _ _ | Promo f _ _ _ | EnPassant f _ | Castle f _ => f end.
Definition mv_to (m : cmove) : N :=
  match m with Std _ t _ | Promo _ t _ _ | EnPassant _ t | Castle _ t => t end.
Definition mv_captures (m : cmove) : option piece :=
  match m with
  | Std _ _ c | Promo _ _ c _ => c
  | EnPassant _ _ => Some Pawn
  | Castle _ _ => None
  end.

Definition cmove_eqb (a b : cmove) : bool :=
  match a, b with
  | Std f t c, Std f' t' c' => (f =? f') && (t =? t') && opt_piece_eqb c c'
  | Promo f t c p, Promo f' t' c' p' =>
      (f =? f') && (t =? t') && opt_piece_eqb c c' && piece_eqb p p'
  | EnPassant f t, EnPassant f' t' => (f =? f') && (t =? t')
  | Castle f t, Castle f' t' => (f =? f') && (t =? t')
  | _, _ => false
  end.

Inductive effect := ENone | ECheck | ECheckmate | ENotYet.

Inductive berr :=
| SquareOccupied | FromSquareEmpty | ToSquareEmptyUndo | UnexpectedCapture
| EpNonPawnApply | EpNonPawnUndo | EpNoCapture | InvalidCastleMove | InvalidCastleState
| PromotionNonPawn | PawnNotPromotable.

(* Result<_, BoardError> plus the third outcome of every unwrap()/overflow check *)
Inductive res (A : Type) := Ok (a : A) | Err (e : berr) | Panic.
Arguments Ok {A} a.
Arguments Err {A} e.
Arguments Panic {A}.

Definition bind {A B} (r : res A) (f : A -> res B) : res B :=
  match r with Ok a => f a | Err e => Err e | Panic => Panic end.
(* `.unwrap()` on a Result *)
Definition unwrap {A} (r : res A) : res A :=
  match r with Ok a => Ok a | _ => Panic end.

Notation "'let*' x ':=' r 'in' k" := (bind r (fun x => k))
  (at level 200, x pattern, r at level 100, k at level 200, right associativity).

(* castle rights bit masks (src/board/castle_rights_bitmask.rs) *)
Definition WK : N := 8.
Definition BK : N := 4.
Definition WQ : N := 2.
Definition BQ : N := 1.
Definition ALL_RIGHTS : N := 15.
