(* Memo.v -- generic theory (Coq stdlib only, no chess file imported).

   A memo table with ARBITRARY EVICTION never changes answers, provided the key determines the
   value on the set S of items that are ever queried (C02).  The key function need not be
   injective (hash collisions are allowed as long as colliding items have equal values).

   A query step is a relation: on a hit the stored value is returned; on a miss -- or when the
   implementation chooses to ignore a hit -- the value is computed and stored; after either, the
   table may drop any entries it likes (`evict`).

   Main results:
     qstep_sound     : one query on a sound table answers f x and leaves a sound table
     queries_sound   : any run of any list of queries (all in S) from a sound table (e.g. [])
                       answers map f, final table sound
     long_lived_eq_fresh / runs_agree : a long-lived table that already served qs answers
                       exactly like a fresh one
     query_qstep, firstn_evict : the relation is inhabited by the obvious executable memo
                       function and by a bounded (truncate-to-n) table
     MemoExample.collision_refuted : without key_det a wrong answer is possible              *)

From Coq Require Import List Bool Arith Lia.
Import ListNotations.

Section Memo.
Variables X K V : Type.
Variable key : X -> K.
Variable f : X -> V.
Variable K_eqb : K -> K -> bool.
(* only this half of `K_eqb a b = true <-> a = b` is needed: a comparison that fails to
   recognise some equal keys merely loses hits *)
Hypothesis K_eqb_true : forall a b, K_eqb a b = true -> a = b.

Definition cache := list (K * V).

(* association list, first match wins *)
Fixpoint assoc (c:cache) (k:K) : option V :=
  match c with
  | [] => None
  | (k',v)::c' => if K_eqb k k' then Some v else assoc c' k
  end.

(* c' is obtained from c by dropping / shadow-revealing nothing new: every binding visible in c'
   is the binding visible in c *)
Definition evict (c c':cache) : Prop := forall k v, assoc c' k = Some v -> assoc c k = Some v.

Lemma evict_refl c : evict c c.
Proof. intros k v H. exact H. Qed.

Lemma evict_trans c1 c2 c3 : evict c1 c2 -> evict c2 c3 -> evict c1 c3.
Proof. intros H1 H2 k v H. apply H1, H2, H. Qed.

Lemma evict_nil c : evict c [].
Proof. intros k v H. discriminate H. Qed.

Inductive qstep (c:cache) (x:X) : V -> cache -> Prop :=
| q_hit  : forall v c', assoc c (key x) = Some v -> evict c c' -> qstep c x v c'
| q_miss : forall c', evict ((key x, f x) :: c) c' -> qstep c x (f x) c'.

Inductive qrun : cache -> list X -> list V -> cache -> Prop :=
| qrun_nil  : forall c, qrun c [] [] c
| qrun_cons : forall c x v c1 xs vs c2,
    qstep c x v c1 -> qrun c1 xs vs c2 -> qrun c (x::xs) (v::vs) c2.

(* S: the items that are ever queried; on S the key determines the value *)
Variable S : X -> Prop.
Hypothesis key_det : forall x y, S x -> S y -> key x = key y -> f x = f y.

Definition sound (c:cache) : Prop :=
  forall k v, assoc c k = Some v -> forall x, S x -> key x = k -> v = f x.

Lemma sound_nil : sound [].
Proof. intros k v H. discriminate H. Qed.

Lemma sound_evict c c' : sound c -> evict c c' -> sound c'.
Proof. intros Hc He k v H. apply Hc. apply He. exact H. Qed.

Lemma sound_store c x : S x -> sound c -> sound ((key x, f x) :: c).
Proof.
  intros Hx Hc k v H y Hy Ey. cbn [assoc] in H.
  destruct (K_eqb k (key x)) eqn:E.
  - apply K_eqb_true in E. inversion H; subst v. apply key_det; [exact Hx|exact Hy|congruence].
  - apply (Hc k v H y Hy Ey).
Qed.

Theorem qstep_sound : forall c x v c', sound c -> S x -> qstep c x v c' -> v = f x /\ sound c'.
Proof.
  intros c x v c' Hc Hx Hq. destruct Hq as [v c' Hhit He|c' He].
  - split; [apply (Hc _ _ Hhit x Hx eq_refl)|apply (sound_evict c c' Hc He)].
  - split; [reflexivity|]. apply (sound_evict _ c' (sound_store c x Hx Hc) He).
Qed.

Theorem queries_sound : forall c xs vs c', sound c -> Forall S xs -> qrun c xs vs c' ->
  vs = map f xs /\ sound c'.
Proof.
  intros c xs vs c' Hc Hxs Hr. induction Hr as [c|c x v c1 xs vs c2 Hq Hr IH].
  - split; [reflexivity|exact Hc].
  - inversion Hxs as [|x' xs' Hx Hxs']; subst.
    destruct (qstep_sound c x v c1 Hc Hx Hq) as [-> Hc1].
    destruct (IH Hc1 Hxs') as [-> Hc2]. split; [reflexivity|exact Hc2].
Qed.

Corollary queries_sound_fresh : forall xs vs c', Forall S xs -> qrun [] xs vs c' ->
  vs = map f xs /\ sound c'.
Proof. intros xs vs c'. apply queries_sound. apply sound_nil. Qed.

(* a long-lived table that has served the queries qs (with any hits, misses, evictions) answers
   the next query x exactly like a fresh table *)
Corollary long_lived_eq_fresh : forall qs ws c x v c1 v' c2,
  Forall S qs -> S x ->
  qrun [] qs ws c ->          (* history of the long-lived table *)
  qstep c x v c1 ->           (* long-lived table answers v *)
  qstep [] x v' c2 ->         (* fresh table answers v' *)
  v = v'.
Proof.
  intros qs ws c x v c1 v' c2 Hqs Hx Hr H1 H2.
  destruct (queries_sound_fresh qs ws c Hqs Hr) as [_ Hc].
  destruct (qstep_sound c x v c1 Hc Hx H1) as [-> _].
  destruct (qstep_sound [] x v' c2 sound_nil Hx H2) as [-> _]. reflexivity.
Qed.

(* two generators: any two runs of the same queries, from any two sound tables, with any
   hit/miss/eviction behaviour, return the same answers *)
Corollary runs_agree : forall c1 c2 xs vs1 vs2 c1' c2',
  sound c1 -> sound c2 -> Forall S xs ->
  qrun c1 xs vs1 c1' -> qrun c2 xs vs2 c2' -> vs1 = vs2.
Proof.
  intros c1 c2 xs vs1 vs2 c1' c2' H1 H2 Hxs R1 R2.
  destruct (queries_sound c1 xs vs1 c1' H1 Hxs R1) as [-> _].
  destruct (queries_sound c2 xs vs2 c2' H2 Hxs R2) as [-> _]. reflexivity.
Qed.

(* ---------------------------------------------------------------- *)
(* the relation is inhabited by the obvious implementations          *)

Definition query (c:cache) (x:X) : V * cache :=
  match assoc c (key x) with
  | Some v => (v, c)
  | None => (f x, (key x, f x) :: c)
  end.

Lemma query_qstep c x : qstep c x (fst (query c x)) (snd (query c x)).
Proof.
  unfold query. destruct (assoc c (key x)) as [v|] eqn:E; cbn [fst snd].
  - apply q_hit; [exact E|apply evict_refl].
  - apply q_miss. apply evict_refl.
Qed.

Corollary query_sound c x : sound c -> S x -> fst (query c x) = f x /\ sound (snd (query c x)).
Proof. intros Hc Hx. apply (qstep_sound c x _ _ Hc Hx (query_qstep c x)). Qed.

(* a bounded table that keeps only the n most recent entries is an eviction *)
Lemma firstn_evict : forall n c, evict c (firstn n c).
Proof.
  induction n as [|n IH]; intros c k v H; [discriminate H|].
  destruct c as [|[k' v'] c]; [discriminate H|]. cbn [firstn assoc] in *.
  destruct (K_eqb k k'); [exact H|apply IH; exact H].
Qed.

Definition query_bounded (n:nat) (c:cache) (x:X) : V * cache :=
  let r := query c x in (fst r, firstn n (snd r)).

Lemma query_bounded_qstep n c x :
  qstep c x (fst (query_bounded n c x)) (snd (query_bounded n c x)).
Proof.
  unfold query_bounded, query. destruct (assoc c (key x)) as [v|] eqn:E; cbn [fst snd].
  - apply q_hit; [exact E|apply firstn_evict].
  - apply q_miss. apply firstn_evict.
Qed.

End Memo.

(* ---------------------------------------------------------------- *)
Module MemoExample.
  (* items are numbers, the key is the number mod 3 (so the key function is far from injective),
     and the value depends on the key only *)
  Definition key (x:nat) : nat := x mod 3.
  Definition f (x:nat) : nat := 10 * (x mod 3).
  Definition S (x:nat) : Prop := True.

  Example key_det_ok : forall x y, S x -> S y -> key x = key y -> f x = f y.
  Proof. intros x y _ _ E. unfold f, key in *. rewrite E. reflexivity. Qed.

  Example eqb_ok : forall a b, Nat.eqb a b = true -> a = b.
  Proof. intros a b. apply Nat.eqb_eq. Qed.

  (* a concrete run with a miss, a hit through a collision (4 and 7 share key 1),
     an eviction of everything, and a re-computation *)
  Example a_run :
    qrun nat nat nat key f Nat.eqb [] [4; 7; 4] [10; 10; 10] [(1, 10)].
  Proof.
    apply qrun_cons with (c1 := [(1, 10)]).
    { apply (q_miss nat nat nat key f Nat.eqb [] 4). apply evict_refl. }
    apply qrun_cons with (c1 := []).
    { apply (q_hit nat nat nat key f Nat.eqb [(1,10)] 7 10 []); [reflexivity|apply evict_nil]. }
    apply qrun_cons with (c1 := [(1, 10)]).
    { apply (q_miss nat nat nat key f Nat.eqb [] 4). apply evict_refl. }
    apply qrun_nil.
  Qed.

  Example instance := queries_sound nat nat nat key f Nat.eqb eqb_ok S key_det_ok.

  (* necessity of key_det: with a value that is NOT determined by the key, a hit returns a
     wrong answer *)
  Definition g (x:nat) : nat := x.
  Example collision_refuted :
    fst (query nat nat nat key g Nat.eqb (snd (query nat nat nat key g Nat.eqb [] 4)) 7) = 4 /\
    g 7 = 7.
  Proof. vm_compute. split; reflexivity. Qed.
End MemoExample.

Print Assumptions qstep_sound.
Print Assumptions queries_sound.
Print Assumptions long_lived_eq_fresh.
Print Assumptions runs_agree.
Print Assumptions query_bounded_qstep.
