(* InvProofs.v — property C12, part 1: the representation invariant [Repr] (the Prop form
   of Abs.repr_ok), castle rights only ever lose bits, and every move with the shape of
   a generated move ([gen_shape]) keeps [Repr]; so does its undo. *)
From Coq Require Import Lia ZArith NArith List Bool.
From ChessV Require Import Abs WfReflect GeomProofs.
From ChessV Require UndoProofs.
From ChessV Require Export MoveCells.

#[local] Arguments N.add : simpl never.
#[local] Arguments N.sub : simpl never.
#[local] Arguments N.mul : simpl never.
#[local] Arguments N.div : simpl never.
#[local] Arguments N.modulo : simpl never.
#[local] Arguments N.eqb : simpl never.
#[local] Arguments N.ltb : simpl never.
#[local] Arguments N.leb : simpl never.
#[local] Arguments N.shiftl : simpl never.
#[local] Arguments N.shiftr : simpl never.
#[local] Arguments N.land : simpl never.
#[local] Arguments N.lor : simpl never.
#[local] Arguments N.lxor : simpl never.
#[local] Arguments N.ldiff : simpl never.
#[local] Arguments N.testbit : simpl never.

Ltac eqb_cases :=
  repeat match goal with
         | |- context [N.eqb ?a ?b] => destruct (N.eqb_spec a b); try subst
         end; try reflexivity; try congruence; try lia.

(* ------------------------------------------------------------------ *)
(** * the invariant, in Prop form *)

(* castle-right bit indices: WK = bit 3, BK = bit 2, WQ = bit 1, BQ = bit 0 *)
Definition one_king (b : board) (c : color) : Prop :=
  exists k, forall j, bget b j = Some (King, c) <-> j = k.

Definition pawns_mid (b : board) : Prop :=
  forall j c, bget b j = Some (Pawn, c) -> 8 <= j /\ j < 56.

Definition right_home (b : board) (i ksq rsq : N) (c : color) : Prop :=
  mem i (top (cr_stack b)) = true ->
  bget b ksq = Some (King, c) /\ bget b rsq = Some (Rook, c).

Definition ep_shape (b : board) : Prop :=
  let t := top (ep_stack b) in
  t = 0 \/
  (popcount t = 1 /\
   let i := tz t in
   ((rank_of i = 2 /\ bget b (i + 8) = Some (Pawn, White) /\ bget b i = None /\ bget b (i - 8) = None)
    \/ (rank_of i = 5 /\ bget b (i - 8) = Some (Pawn, Black) /\ bget b i = None /\ bget b (i + 8) = None))).

Definition Repr (b : board) : Prop :=
  (WF b /\ ep_stack b <> [] /\ cr_stack b <> [] /\ hm_stack b <> [] /\ seen_stack b <> [])
  /\ one_king b White /\ one_king b Black
  /\ pawns_mid b
  /\ right_home b 3 4 7 White /\ right_home b 1 4 0 White
  /\ right_home b 2 60 63 Black /\ right_home b 0 60 56 Black
  /\ ep_shape b.

(* ---- reflection: repr_ok b = true <-> Repr b ---- *)

Lemma popcount_king_iff b c : WF b ->
  (popcount (kg (pieces b c)) = 1 <-> one_king b c).
Proof.
  intro W. pose proof (WFs_fits_locate _ King (WF_pieces b c W)) as F. cbn [locate] in F.
  split.
  - intro P. destruct (popcount_1_bit _ F P) as (k & Lk & E). exists k. intro j.
    rewrite (bget_mem b j King c W). cbn [locate]. rewrite E, BitsLemmas.mem_bit.
    apply N.eqb_eq.
  - intros [k K].
    assert (Lk : k < 64).
    { apply (bget_lt64 b k (King, c) W). apply K. reflexivity. }
    assert (E : kg (pieces b c) = bit k).
    { apply bb_ext. intro j. rewrite BitsLemmas.mem_bit.
      destruct (N.eqb_spec j k) as [->|Hne].
      - apply (bget_mem b k King c W). apply K. reflexivity.
      - destruct (mem j (kg (pieces b c))) eqn:M; [|reflexivity].
        exfalso. apply Hne. apply K. apply (bget_mem b j King c W). exact M. }
    rewrite E. apply popcount_bit. exact Lk.
Qed.

Lemma mem_rank18 j : mem j (N.lor RANK_1 RANK_8) = (j <? 8) || ((56 <=? j) && (j <? 64)).
Proof.
  destruct (N.lt_ge_cases j 64) as [L|L].
  - apply eqb_prop.
    apply (sweep64 (fun j => eqb (mem j (N.lor RANK_1 RANK_8)) ((j <? 8) || ((56 <=? j) && (j <? 64))))); [|exact L].
    vm_compute. reflexivity.
  - rewrite (mem_ge64 (N.lor RANK_1 RANK_8) j); [|vm_compute; discriminate|exact L].
    symmetry. apply orb_false_iff. split; [apply N.ltb_ge; lia|].
    apply andb_false_iff. right. apply N.ltb_ge. lia.
Qed.

Lemma pawns_mid_iff b : WF b ->
  (N.land (N.lor (pw (white b)) (pw (black b))) (N.lor RANK_1 RANK_8) = 0 <-> pawns_mid b).
Proof.
  intro W. rewrite land_0_disjoint. split.
  - intros H j c G. pose proof (bget_lt64 b j _ W G) as Lj.
    apply (bget_mem b j Pawn c W) in G. cbn [locate] in G.
    specialize (H j). rewrite mem_lor, mem_rank18 in H.
    assert (M : mem j (pw (white b)) || mem j (pw (black b)) = true).
    { destruct c; cbn [pieces] in G; rewrite G; [apply orb_true_r|reflexivity]. }
    rewrite M in H. cbn [andb] in H. apply orb_false_elim in H. destruct H as [H1 H2].
    apply N.ltb_ge in H1. apply andb_false_iff in H2.
    destruct H2 as [H2|H2]; [apply N.leb_gt in H2|apply N.ltb_ge in H2]; lia.
  - intros H j. rewrite mem_lor, mem_rank18.
    destruct (mem j (pw (white b))) eqn:Mw.
    + assert (G : bget b j = Some (Pawn, White)) by (apply (bget_mem b j Pawn White W); exact Mw).
      destruct (H _ _ G) as [A B]. cbn [orb andb].
      apply orb_false_iff. split; [apply N.ltb_ge; lia|].
      apply andb_false_iff. left. apply N.leb_gt. lia.
    + destruct (mem j (pw (black b))) eqn:Mb; [|reflexivity].
      assert (G : bget b j = Some (Pawn, Black)) by (apply (bget_mem b j Pawn Black W); exact Mb).
      destruct (H _ _ G) as [A B]. cbn [orb andb].
      apply orb_false_iff. split; [apply N.ltb_ge; lia|].
      apply andb_false_iff. left. apply N.leb_gt. lia.
Qed.

Lemma land_bit_0 x i : N.land x (bit i) = 0 <-> mem i x = false.
Proof.
  rewrite land_0_disjoint. split.
  - intro H. specialize (H i). rewrite mem_bit_same, andb_true_r in H. exact H.
  - intros H j. rewrite BitsLemmas.mem_bit. destruct (N.eqb_spec j i) as [->|Hne].
    + rewrite H. reflexivity.
    + apply andb_false_r.
Qed.

Lemma right_ok_iff b i ksq rsq c :
  right_ok b (bit i) ksq rsq c = true <-> right_home b i ksq rsq c.
Proof.
  unfold right_ok, right_home. rewrite orb_true_iff, andb_true_iff, N.eqb_eq, land_bit_0, !opt_pc_eqb_eq.
  destruct (mem i (top (cr_stack b))); split; intro H.
  - intros _. destruct H as [H|H]; [discriminate|exact H].
  - right. apply H. reflexivity.
  - intro X. discriminate.
  - left. reflexivity.
Qed.

Lemma is_none_iff {A} (o : option A) : is_none o = true <-> o = None.
Proof. destruct o; cbn; split; intro H; try reflexivity; discriminate. Qed.

Lemma ep_ok_iff b : ep_ok b = true <-> ep_shape b.
Proof.
  unfold ep_ok, ep_shape. cbv zeta.
  destruct (is_empty (top (ep_stack b))) eqn:E.
  - apply is_empty_spec in E. split; [intros _; left; exact E|reflexivity].
  - apply is_empty_false in E.
    rewrite andb_true_iff, N.eqb_eq.
    destruct (N.eqb_spec (rank_of (tz (top (ep_stack b)))) 2) as [R2|R2].
    + rewrite !andb_true_iff, opt_pc_eqb_eq, !is_none_iff. split.
      * intros [P H]. right. split; [exact P|]. left. tauto.
      * intros [H|[P [H|H]]]; [contradiction| |]; [tauto|].
        destruct H as [R5 _]. rewrite R2 in R5. discriminate.
    + destruct (N.eqb_spec (rank_of (tz (top (ep_stack b)))) 5) as [R5|R5].
      * rewrite !andb_true_iff, opt_pc_eqb_eq, !is_none_iff. split.
        -- intros [P H]. right. split; [exact P|]. right. tauto.
        -- intros [H|[P [H|H]]]; [contradiction| |]; [|tauto].
           destruct H as [R2' _]. contradiction.
      * split.
        -- intros [_ H]. discriminate.
        -- intros [H|[P [H|H]]]; [contradiction| |]; destruct H as [R _]; contradiction.
Qed.

Theorem repr_ok_iff b : repr_ok b = true <-> Repr b.
Proof.
  unfold repr_ok, Repr.
  change WK with (bit 3). change WQ with (bit 1). change BK with (bit 2). change BQ with (bit 0).
  rewrite !andb_true_iff, !N.eqb_eq, wf_b_iff, !right_ok_iff, ep_ok_iff.
  split.
  - intros [[[[[[[[Hwf K1] K2] P] R1] R2] R3] R4] E].
    pose proof (proj1 Hwf) as W.
    split; [exact Hwf|].
    split; [apply (popcount_king_iff b White W); exact K1|].
    split; [apply (popcount_king_iff b Black W); exact K2|].
    split; [apply (pawns_mid_iff b W); exact P|].
    exact (conj R1 (conj R2 (conj R3 (conj R4 E)))).
  - intros (Hwf & K1 & K2 & P & R1 & R2 & R3 & R4 & E).
    pose proof (proj1 Hwf) as W.
    apply (popcount_king_iff b White W) in K1. apply (popcount_king_iff b Black W) in K2.
    apply (pawns_mid_iff b W) in P. cbn [pieces] in K1, K2.
    exact (conj (conj (conj (conj (conj (conj (conj (conj Hwf K1) K2) P) R1) R2) R3) R4) E).
Qed.

Lemma Repr_WF b : Repr b -> WF b.
Proof. intros [[W _] _]. exact W. Qed.

(* ------------------------------------------------------------------ *)
(** * 1. castle rights only ever lose bits (no invariant needed) *)

Lemma mem_new_rights i old lost : mem i (new_rights old lost) = mem i old && negb (mem i lost).
Proof.
  unfold new_rights. rewrite mem_lxor, mem_land.
  destruct (mem i old), (mem i lost); reflexivity.
Qed.

Lemma new_rights_0 old : new_rights old 0 = old.
Proof. unfold new_rights. rewrite N.land_0_r. apply N.lxor_0_r. Qed.

Section Rights.
Variable T : ztable.

Tactic Notation "bind_step" hyp(H) ident(a) ident(E) :=
  match type of H with
  | bind ?r _ = Ok _ =>
      destruct r as [a| |] eqn:E; cbn [bind] in H; [|discriminate H|discriminate H]
  end.

Lemma put_cr b i p c b' : put T b i p c = Ok b' -> cr_stack b' = cr_stack b.
Proof. intro H. apply (put_frame T _ _ _ _ _ H). Qed.
Lemma bremove_cr b i pc b' : bremove T b i = Some (pc, b') -> cr_stack b' = cr_stack b.
Proof. destruct pc as [p c]. intro H. apply (bremove_frame T _ _ _ _ _ H). Qed.
Lemma remove_unwrap_cr b i b' : remove_unwrap T b i = Ok b' -> cr_stack b' = cr_stack b.
Proof.
  unfold remove_unwrap. destruct (bremove T b i) as [[pc b1]|] eqn:R; [|discriminate].
  intro H. inversion H. subst. apply (bremove_cr _ _ _ _ R).
Qed.
Lemma inc_halfmove_cr b b' : inc_halfmove b = Ok b' -> cr_stack b' = cr_stack b.
Proof. intro H. apply (inc_halfmove_spec _ _ H). Qed.
Lemma inc_fullmove_cr b b' : inc_fullmove b = Ok b' -> cr_stack b' = cr_stack b.
Proof. intro H. apply (inc_fullmove_spec _ _ H). Qed.
Lemma push_ep_cr b t b' : push_ep T b t = Ok b' -> cr_stack b' = cr_stack b.
Proof. intro H. apply (push_ep_spec T _ _ _ H). Qed.
Lemma lose_rights_cr b l b' : lose_rights T b l = Ok b' ->
  cr_stack b' = new_rights (top (cr_stack b)) l :: cr_stack b.
Proof. intro H. apply (lose_rights_spec T _ _ _ H). Qed.
Lemma preserve_rights_cr b b' : preserve_rights b = Ok b' ->
  cr_stack b' = top (cr_stack b) :: cr_stack b.
Proof. intro H. apply (preserve_rights_spec _ _ H). Qed.

Lemma apply_std_cr b f t cap b' : apply_std T b f t cap = Ok b' ->
  exists lost, cr_stack b' = new_rights (top (cr_stack b)) lost :: cr_stack b.
Proof.
  unfold apply_std. intro H.
  destruct (bremove T b f) as [[[p c] b1]|] eqn:R1; [|discriminate].
  pose proof (bremove_cr _ _ _ _ R1) as C1.
  assert (X : exists captured b2,
     match bremove T b1 t with None => (None, b1) | Some (pc, b2) => (Some pc, b2) end = (captured, b2)
     /\ cr_stack b2 = cr_stack b1).
  { destruct (bremove T b1 t) as [[pc b2]|] eqn:R2.
    - exists (Some pc), b2. split; [reflexivity|apply (bremove_cr _ _ _ _ R2)].
    - exists None, b1. split; reflexivity. }
  destruct X as (captured & b2 & E & C2). rewrite E in H. cbv beta iota zeta in H.
  destruct (negb _) in H; [discriminate|].
  bind_step H b3 S3. bind_step H b4 S4. bind_step H b5 S5. bind_step H b6 S6.
  apply unwrap_ok_inv in H.
  assert (C3 : cr_stack b3 = cr_stack b2).
  { destruct captured; [inversion S3; reflexivity|].
    destruct (piece_eqb p Pawn); [inversion S3; reflexivity|apply (inc_halfmove_cr _ _ S3)]. }
  eexists. rewrite (put_cr _ _ _ _ _ H), (lose_rights_cr _ _ _ S6),
    (push_ep_cr _ _ _ S5), (inc_fullmove_cr _ _ S4), C3, C2, C1. reflexivity.
Qed.

Lemma apply_move_cr m b b' : apply_move T m b = Ok b' ->
  exists lost, cr_stack b' = new_rights (top (cr_stack b)) lost :: cr_stack b.
Proof.
  destruct m as [f t cap|f t cap pp|f t|f t]; cbn [apply_move]; intro H.
  - apply (apply_std_cr _ _ _ _ _ H).
  - unfold apply_promo in H. bind_step H b1 S1.
    destruct (apply_std_cr _ _ _ _ _ S1) as [lost C1].
    destruct (bremove T b1 t) as [[[p c] b2]|] eqn:R2; [|discriminate].
    destruct p; try discriminate.
    exists lost. rewrite (put_cr _ _ _ _ _ H), (bremove_cr _ _ _ _ R2). exact C1.
  - unfold apply_ep in H.
    destruct (bremove T b f) as [[[p c] b1]|] eqn:R1; [|discriminate].
    destruct (negb _) in H; [discriminate|].
    destruct (bremove T b1 (ep_captured_square c t)) as [[pc2 b2]|] eqn:R2; [|discriminate].
    cbv zeta in H. bind_step H b4 S4. bind_step H b5 S5. bind_step H b6 S6.
    exists 0. rewrite new_rights_0.
    rewrite (put_cr _ _ _ _ _ H), (preserve_rights_cr _ _ S6), (push_ep_cr _ _ _ S5),
      (inc_fullmove_cr _ _ S4).
    change (cr_stack (reset_halfmove b2)) with (cr_stack b2).
    rewrite (bremove_cr _ _ _ _ R2), (bremove_cr _ _ _ _ R1). reflexivity.
  - unfold apply_castle in H.
    bind_step H x E0. destruct x as [[c rf] rt].
    repeat (match type of H with (if ?x then _ else _) = _ => destruct x; [discriminate|] end).
    bind_step H b1 S1. bind_step H b2 S2. apply unwrap_ok_inv in S2.
    bind_step H b3 S3. bind_step H b4 S4. apply unwrap_ok_inv in S4.
    cbv zeta in H. bind_step H b5 S5. bind_step H b6 S6. bind_step H b7 S7.
    eexists. rewrite (lose_rights_cr _ _ _ H), (push_ep_cr _ _ _ S7), (inc_fullmove_cr _ _ S6),
      (inc_halfmove_cr _ _ S5), (put_cr _ _ _ _ _ S4), (remove_unwrap_cr _ _ _ S3),
      (put_cr _ _ _ _ _ S2), (remove_unwrap_cr _ _ _ S1). reflexivity.
Qed.

(** rights only lose bits: [new = old xor (old land lost)] *)
Theorem rights_monotone m b b' : apply_move T m b = Ok b' ->
  forall i, mem i (top (cr_stack b')) = true -> mem i (top (cr_stack b)) = true.
Proof.
  intros H i M. destruct (apply_move_cr _ _ _ H) as [lost C].
  rewrite C, top_cons, mem_new_rights in M. apply andb_true_iff in M. apply M.
Qed.

(* along any sequence of moves with the side to move toggled (or not) in between *)
Inductive plays : board -> board -> Prop :=
| plays_refl b : plays b b
| plays_move b m b1 b2 : apply_move T m b = Ok b1 -> plays b1 b2 -> plays b b2
| plays_toggle b b2 : plays (toggle_turn b) b2 -> plays b b2.

Theorem rights_monotone_seq b b' : plays b b' ->
  forall i, mem i (top (cr_stack b')) = true -> mem i (top (cr_stack b)) = true.
Proof.
  induction 1 as [b|b m b1 b2 H _ IH|b b2 _ IH]; intros i M.
  - exact M.
  - apply (rights_monotone _ _ _ H). apply IH. exact M.
  - apply IH in M. exact M.
Qed.

End Rights.

(* ------------------------------------------------------------------ *)
(** * 2. the shape of a generated move, and preservation of [Repr] *)

Definition ep_mover_rank (c : color) : N := match c with White => 5 | Black => 2 end.

(* what [apply_Repr] needs of a move; every clause is a fact about generated moves
   (see InvProofs2.v).  Nothing is asked of a castle: apply_castle checks all it needs. *)
Definition gen_shape (b : board) (m : cmove) : Prop :=
  mv_from m < 64 /\ mv_to m < 64 /\
  match m with
  | Std f t cap =>
      cap <> Some King /\
      match bget b f with
      | Some (p, c) =>
          (p = Pawn -> 8 <= t /\ t < 56) /\
          (ep_target_of p c f t <> 0 ->
             match c with
             | White => t = f + 16 /\ bget b (f + 8) = None
             | Black => f = t + 16 /\ bget b (t + 8) = None
             end)
      | None => True
      end
  | Promo f t cap pp => cap <> Some King /\ pp <> King /\ pp <> Pawn /\ (t < 8 \/ 56 <= t)
  | EnPassant f t =>
      peek_ep b = Ok (bit t) /\
      match bget b f with
      | Some (_, c) => rank_of t = ep_mover_rank c
      | None => True
      end
  | Castle f t => True
  end.

Definition gen_shapeb (b : board) (m : cmove) : bool :=
  (mv_from m <? 64) && (mv_to m <? 64) &&
  match m with
  | Std f t cap =>
      negb (opt_piece_eqb cap (Some King)) &&
      match bget b f with
      | Some (p, c) =>
          (negb (piece_eqb p Pawn) || ((8 <=? t) && (t <? 56))) &&
          ((ep_target_of p c f t =? 0) ||
             match c with
             | White => (t =? f + 16) && is_none (bget b (f + 8))
             | Black => (f =? t + 16) && is_none (bget b (t + 8))
             end)
      | None => true
      end
  | Promo f t cap pp =>
      negb (opt_piece_eqb cap (Some King)) && negb (piece_eqb pp King) && negb (piece_eqb pp Pawn)
      && ((t <? 8) || (56 <=? t))
  | EnPassant f t =>
      (match peek_ep b with Ok e => e =? bit t | _ => false end) &&
      match bget b f with
      | Some (_, c) => rank_of t =? ep_mover_rank c
      | None => true
      end
  | Castle f t => true
  end.

Lemma negb_opt_piece_eqb a b : negb (opt_piece_eqb a b) = true <-> a <> b.
Proof.
  rewrite negb_true_iff. split.
  - intros H E. apply opt_piece_eqb_eq in E. congruence.
  - intro H. destruct (opt_piece_eqb a b) eqn:E; [|reflexivity]. apply opt_piece_eqb_eq in E. contradiction.
Qed.

Lemma negb_piece_eqb a b : negb (piece_eqb a b) = true <-> a <> b.
Proof. rewrite negb_true_iff. apply piece_eqb_neq. Qed.

Theorem gen_shapeb_spec b m : gen_shapeb b m = true <-> gen_shape b m.
Proof.
  unfold gen_shapeb, gen_shape.
  destruct m as [f t cap|f t cap pp|f t|f t]; cbn [mv_from mv_to]; rewrite !andb_true_iff, !N.ltb_lt.
  - rewrite negb_opt_piece_eqb. destruct (bget b f) as [[p c]|]; [|tauto].
    rewrite andb_true_iff, !orb_true_iff, negb_piece_eqb, andb_true_iff, N.leb_le, N.ltb_lt, N.eqb_eq.
    destruct c; rewrite andb_true_iff, N.eqb_eq, is_none_iff.
    + destruct (piece_eq_dec p Pawn) as [Ep|Np], (N.eq_dec (ep_target_of p Black f t) 0) as [Ee|Ne]; tauto.
    + destruct (piece_eq_dec p Pawn) as [Ep|Np], (N.eq_dec (ep_target_of p White f t) 0) as [Ee|Ne]; tauto.
  - rewrite negb_opt_piece_eqb, !negb_piece_eqb, orb_true_iff, N.ltb_lt, N.leb_le. tauto.
  - assert (X : match peek_ep b with Ok e => e =? bit t | _ => false end = true <-> peek_ep b = Ok (bit t)).
    { destruct (peek_ep b) as [e| |]; [rewrite N.eqb_eq|..]; split; intro H; try discriminate; congruence. }
    rewrite X. destruct (bget b f) as [[p c]|]; [rewrite N.eqb_eq|]; tauto.
  - tauto.
Qed.

(* ---- small facts about the lost-rights tables ---- *)
Definition right_tuple (i ksq rsq : N) (c : color) : Prop :=
  (i = 3 /\ ksq = 4 /\ rsq = 7 /\ c = White) \/ (i = 1 /\ ksq = 4 /\ rsq = 0 /\ c = White)
  \/ (i = 2 /\ ksq = 60 /\ rsq = 63 /\ c = Black) \/ (i = 0 /\ ksq = 60 /\ rsq = 56 /\ c = Black).

Ltac tuple_cases R :=
  destruct R as [(-> & -> & -> & ->)|[(-> & -> & -> & ->)|[(-> & -> & -> & ->)|(-> & -> & -> & ->)]]].

Lemma lost_moved_king i ksq rsq c : right_tuple i ksq rsq c -> mem i (lost_if_moved King c ksq) = true.
Proof. intro R. tuple_cases R; vm_compute; reflexivity. Qed.
Lemma lost_moved_rook i ksq rsq c : right_tuple i ksq rsq c -> mem i (lost_if_moved Rook c rsq) = true.
Proof. intro R. tuple_cases R; vm_compute; reflexivity. Qed.
Lemma lost_taken_rook i ksq rsq c : right_tuple i ksq rsq c -> mem i (lost_if_taken (Some (Rook, c)) rsq) = true.
Proof. intro R. tuple_cases R; vm_compute; reflexivity. Qed.
Lemma lost_castle i ksq rsq c : right_tuple i ksq rsq c -> mem i (castle_lost c) = true.
Proof. intro R. tuple_cases R; vm_compute; reflexivity. Qed.

(* ---- the en-passant target in closed form ---- *)
Lemma ep_target_closed c f t : f < 64 -> t < 64 ->
  ep_target_of Pawn c f t =
  match c with
  | White => if (8 <=? f) && (f <? 16) && (24 <=? t) && (t <? 32) then bit (f + 8) else 0
  | Black => if (48 <=? f) && (f <? 56) && (32 <=? t) && (t <? 40) then bit (f - 8) else 0
  end.
Proof.
  intros Lf Lt. apply N.eqb_eq. destruct c.
  - apply (sweep64x64 (fun f t => ep_target_of Pawn Black f t =?
       if (48 <=? f) && (f <? 56) && (32 <=? t) && (t <? 40) then bit (f - 8) else 0)); [|exact Lf|exact Lt].
    vm_compute. reflexivity.
  - apply (sweep64x64 (fun f t => ep_target_of Pawn White f t =?
       if (8 <=? f) && (f <? 16) && (24 <=? t) && (t <? 32) then bit (f + 8) else 0)); [|exact Lf|exact Lt].
    vm_compute. reflexivity.
Qed.

Lemma rank_of_cases i : (rank_of i = 2 <-> 16 <= i /\ i < 24) /\ (rank_of i = 5 <-> 40 <= i /\ i < 48).
Proof.
  unfold rank_of.
  assert (D : i = 8 * (i / 8) + i mod 8) by (apply N.div_mod; lia).
  assert (M : i mod 8 < 8) by (apply N.mod_lt; lia).
  revert D M. generalize (i / 8). generalize (i mod 8). intros r q D M. lia.
Qed.

Lemma peek_ep_top b x : peek_ep b = Ok x -> top (ep_stack b) = x /\ ep_stack b <> [].
Proof.
  unfold peek_ep, top. destruct (ep_stack b) as [|y r]; [discriminate|].
  intro H. inversion H. split; [reflexivity|discriminate].
Qed.

(* the en-passant clause of [Repr], read by the capturing side *)
Lemma ep_victim b c t : ep_shape b -> top (ep_stack b) = bit t -> t < 64 ->
  rank_of t = ep_mover_rank c ->
  bget b (ep_captured_square c t) = Some (Pawn, opp_c c) /\ bget b t = None
  /\ 8 <= t /\ t < 56 /\ 8 <= ep_captured_square c t /\ ep_captured_square c t < 56.
Proof.
  unfold ep_shape. cbv zeta. intros S E Lt R. rewrite E in S.
  destruct S as [S|[_ S]]; [exfalso; apply (bit_neq_0 t S)|].
  rewrite (BoardLemmas.tz_bit t Lt) in S.
  pose proof (rank_of_cases t) as [R2 R5].
  unfold ep_captured_square.
  destruct c; cbn [ep_mover_rank opp_c] in *.
  - destruct S as [S|S]; [|destruct S as [X _]; rewrite R in X; discriminate].
    destruct S as (_ & S1 & S2 & S3). apply R2 in R.
    destruct (N.leb_spec 56 t); [lia|]. repeat split; try assumption; lia.
  - destruct S as [S|S]; [destruct S as [X _]; rewrite R in X; discriminate|].
    destruct S as (_ & S1 & S2 & S3). apply R5 in R.
    destruct (N.ltb_spec t 8); [lia|]. repeat split; try assumption; lia.
Qed.

(** the interface asked for by UndoProofs / the frame files: a move with the generated
    shape on a [Repr] board satisfies the side conditions of [UndoProofs.undo_apply] *)
Theorem gen_shape_sq_ok_ep_ok b m : Repr b -> gen_shape b m ->
  UndoProofs.sq_ok m /\ UndoProofs.ep_ok m b = true.
Proof.
  intros R (Lf & Lt & S). split; [split; assumption|].
  destruct m as [f t cap|f t cap pp|f t|f t]; try reflexivity.
  cbn [mv_to] in Lt. cbn [UndoProofs.ep_ok]. destruct S as [P S].
  destruct (bget b f) as [[p c]|]; [|reflexivity].
  apply peek_ep_top in P. destruct P as [P _].
  destruct R as (_ & _ & _ & _ & _ & _ & _ & _ & E).
  destruct (ep_victim b c t E P Lt S) as (V & _). rewrite V. apply UndoProofs.opt_pc_eqb_refl.
Qed.

(* ---- moves of the Std / Promo kind: a piece leaves f, (q, c) lands on t ---- *)
Section StdLike.
Variables (b b' : board) (f t : N) (p q : piece) (c : color) (cap : option piece).
Hypothesis G0 : bget b f = Some (p, c).
Hypothesis Cap : (if t =? f then None else bget b t) = option_map (fun cp => (cp, opp_c c)) cap.
Hypothesis Hcap : cap <> Some King.
Hypothesis G : forall j, bget b' j = if j =? t then Some (q, c) else if j =? f then None else bget b j.
Hypothesis Hq : q = p \/ (p = Pawn /\ q <> King).

Lemma no_king_captured c' : t <> f -> bget b t <> Some (King, c').
Proof.
  intros Ntf X. destruct (N.eqb_spec t f) as [|_]; [contradiction|].
  rewrite X in Cap. destruct cap as [cp|]; [|discriminate]. cbn [option_map] in Cap.
  inversion Cap. subst cp. apply Hcap. reflexivity.
Qed.

Lemma q_king_iff : q = King <-> p = King.
Proof. destruct Hq as [->|[-> Nq]]; [tauto|]. split; intro X; [contradiction|discriminate]. Qed.

Lemma stdlike_one_king c0 : one_king b c0 -> one_king b' c0.
Proof.
  intros [k K].
  assert (D : (p = King /\ c = c0) \/ ~ (p = King /\ c = c0)).
  { destruct (piece_eq_dec p King); [|tauto]. destruct c, c0; try tauto; right; intros [_ X]; discriminate. }
  destruct D as [[Ep Ec]|D].
  - (* the king moves *)
    assert (Eq : q = King) by (apply q_king_iff; exact Ep).
    assert (Ek : f = k) by (apply K; rewrite G0, Ep, Ec; reflexivity).
    exists t. intro j. rewrite G.
    destruct (N.eqb_spec j t) as [Ejt|Njt]; [rewrite Eq, Ec; tauto|].
    destruct (N.eqb_spec j f) as [Ejf|Njf].
    + split; intro X; [discriminate|contradiction].
    + split; intro X; [apply K in X; exfalso; congruence|contradiction].
  - exists k. intro j. rewrite G.
    destruct (N.eqb_spec j t) as [Ejt|Njt].
    + split; intro X.
      * exfalso. inversion X as [[Xq Xc]]. apply D. split; [apply q_king_iff; exact Xq|exact Xc].
      * exfalso. pose proof (proj2 (K k) eq_refl) as Kt. rewrite <- X, Ejt in Kt.
        destruct (N.eq_dec t f) as [Etf|Ntf].
        -- rewrite Etf, G0 in Kt. inversion Kt as [[Xp Xc]]. apply D. tauto.
        -- apply (no_king_captured c0 Ntf Kt).
    + destruct (N.eqb_spec j f) as [Ejf|Njf]; [|apply K].
      split; intro X; [discriminate|]. exfalso.
      pose proof (proj2 (K k) eq_refl) as Kf. rewrite <- X, Ejf, G0 in Kf.
      inversion Kf as [[Xp Xc]]. apply D. tauto.
Qed.

Lemma stdlike_pawns : (q = Pawn -> 8 <= t /\ t < 56) -> pawns_mid b -> pawns_mid b'.
Proof.
  intros Hm P j c' Gj. rewrite G in Gj.
  destruct (N.eqb_spec j t) as [Ejt|Njt].
  - inversion Gj as [[Xq Xc]]. rewrite Ejt. apply Hm. exact Xq.
  - destruct (N.eqb_spec j f) as [Ejf|Njf]; [discriminate|]. apply (P _ _ Gj).
Qed.

Lemma stdlike_right i ksq rsq c0 : right_tuple i ksq rsq c0 ->
  top (cr_stack b') = new_rights (top (cr_stack b))
     (N.lor (lost_if_moved p c f) (lost_if_taken (option_map (fun cp => (cp, opp_c c)) cap) t)) ->
  right_home b i ksq rsq c0 -> right_home b' i ksq rsq c0.
Proof.
  intros R Et Hold M. rewrite Et, mem_new_rights, mem_lor in M.
  apply andb_true_iff in M. destruct M as [M1 M2]. apply negb_true_iff, orb_false_elim in M2.
  destruct M2 as [M2 M3]. destruct (Hold M1) as [Kk Kr]. split; rewrite G.
  - destruct (N.eqb_spec ksq t) as [Ekt|Nkt].
    + destruct (N.eq_dec t f) as [Etf|Ntf].
      * rewrite Ekt, Etf, G0 in Kk. inversion Kk as [[Xp Xc]].
        rewrite (proj2 q_king_iff Xp). congruence.
      * exfalso. rewrite Ekt in Kk. apply (no_king_captured c0 Ntf Kk).
    + destruct (N.eqb_spec ksq f) as [Ekf|Nkf]; [|exact Kk].
      exfalso. rewrite Ekf, G0 in Kk. inversion Kk as [[Xp Xc]].
      rewrite Xp, Xc, <- Ekf, (lost_moved_king _ _ _ _ R) in M2. discriminate.
  - destruct (N.eqb_spec rsq t) as [Ert|Nrt].
    + destruct (N.eqb_spec t f) as [Etf|Ntf].
      * rewrite Ert, Etf, G0 in Kr. inversion Kr as [[Xp Xc]].
        destruct Hq as [Eq|[X _]]; [rewrite Eq; congruence|congruence].
      * exfalso. rewrite <- Cap, <- Ert, Kr, (lost_taken_rook _ _ _ _ R) in M3. discriminate.
    + destruct (N.eqb_spec rsq f) as [Erf|Nrf]; [|exact Kr].
      exfalso. rewrite Erf, G0 in Kr. inversion Kr as [[Xp Xc]].
      rewrite Xp, Xc, <- Erf, (lost_moved_rook _ _ _ _ R) in M2. discriminate.
Qed.

End StdLike.

Lemma tuple_WK : right_tuple 3 4 7 White.  Proof. unfold right_tuple. tauto. Qed.
Lemma tuple_WQ : right_tuple 1 4 0 White.  Proof. unfold right_tuple. tauto. Qed.
Lemma tuple_BK : right_tuple 2 60 63 Black.  Proof. unfold right_tuple. tauto. Qed.
Lemma tuple_BQ : right_tuple 0 60 56 Black.  Proof. unfold right_tuple. tauto. Qed.

Lemma pushed_wf b b' e r : pushed b b' e r -> seen_stack b <> [] ->
  ep_stack b' <> [] /\ cr_stack b' <> [] /\ hm_stack b' <> [] /\ seen_stack b' <> []
  /\ top (ep_stack b') = e /\ top (cr_stack b') = r.
Proof.
  intros (P1 & P2 & [h P3] & P4 & _) S. rewrite P1, P2, P3, P4.
  repeat split; try discriminate. exact S.
Qed.

Lemma ep_shape_0 b : top (ep_stack b) = 0 -> ep_shape b.
Proof. intro H. left. exact H. Qed.

(* a double pawn step leaves the en-passant shape behind it *)
Lemma std_ep_shape b b' f t p c :
  f < 64 -> t < 64 ->
  (forall j, bget b' j = if j =? t then Some (p, c) else if j =? f then None else bget b j) ->
  top (ep_stack b') = ep_target_of p c f t ->
  (ep_target_of p c f t <> 0 ->
     match c with
     | White => t = f + 16 /\ bget b (f + 8) = None
     | Black => f = t + 16 /\ bget b (t + 8) = None
     end) ->
  ep_shape b'.
Proof.
  intros Lf Lt G Et Se.
  destruct (N.eq_dec (ep_target_of p c f t) 0) as [Z|NZ]; [apply ep_shape_0; congruence|].
  specialize (Se NZ).
  destruct (piece_eq_dec p Pawn) as [->|Np]; [|rewrite (ep_target_of_nonpawn p c f t Np) in NZ; contradiction].
  right. rewrite Et. rewrite (ep_target_closed c f t Lf Lt) in NZ |- *.
  destruct c.
  - destruct ((48 <=? f) && (f <? 56) && (32 <=? t) && (t <? 40)) eqn:C; [|contradiction].
    rewrite !andb_true_iff, !N.leb_le, !N.ltb_lt in C. destruct Se as [Ef Sk].
    assert (L8 : f - 8 < 64) by lia.
    split; [apply popcount_bit; exact L8|]. cbv zeta. rewrite (BoardLemmas.tz_bit _ L8).
    right. split; [apply (rank_of_cases (f - 8)); lia|].
    rewrite !G. replace (f - 8 - 8) with t by lia. replace (f - 8 + 8) with f by lia.
    replace (f - 8) with (t + 8) by lia. rewrite N.eqb_refl.
    destruct (N.eqb_spec (t + 8) t); [lia|]. destruct (N.eqb_spec (t + 8) f); [lia|].
    destruct (N.eqb_spec f t); [lia|]. rewrite N.eqb_refl. tauto.
  - destruct ((8 <=? f) && (f <? 16) && (24 <=? t) && (t <? 32)) eqn:C; [|contradiction].
    rewrite !andb_true_iff, !N.leb_le, !N.ltb_lt in C. destruct Se as [Ef Sk].
    assert (L8 : f + 8 < 64) by lia.
    split; [apply popcount_bit; exact L8|]. cbv zeta. rewrite (BoardLemmas.tz_bit _ L8).
    left. split; [apply (rank_of_cases (f + 8)); lia|].
    rewrite !G. replace (f + 8 + 8) with t by lia. replace (f + 8 - 8) with f by lia.
    rewrite N.eqb_refl.
    destruct (N.eqb_spec (f + 8) t); [lia|]. destruct (N.eqb_spec (f + 8) f); [lia|].
    destruct (N.eqb_spec f t); [lia|]. rewrite N.eqb_refl. tauto.
Qed.

Section Preserve.
Variable T : ztable.

Lemma apply_std_Repr b f t cap b' :
  Repr b -> gen_shape b (Std f t cap) -> apply_std T b f t cap = Ok b' -> Repr b'.
Proof.
  intros ((W & E1 & E2 & E3 & E4) & K1 & K2 & Pm & R1 & R2 & R3 & R4 & Ep) (Lf & Lt & Hcap & S) H.
  cbn [mv_from mv_to] in Lf, Lt.
  destruct (apply_std_cells T b f t cap b' W Lt H) as (p & c & G0 & Cap & G & P & W').
  rewrite G0 in S. destruct S as [Sp Se].
  destruct (pushed_wf _ _ _ _ P E4) as (F1 & F2 & F3 & F4 & Te & Tr).
  pose proof (@or_introl (p = p) (p = Pawn /\ p <> King) eq_refl) as Hq.
  split; [tauto|].
  split; [apply (stdlike_one_king b b' f t p p c cap G0 Cap Hcap G Hq White K1)|].
  split; [apply (stdlike_one_king b b' f t p p c cap G0 Cap Hcap G Hq Black K2)|].
  split; [apply (stdlike_pawns b b' f t p c G Sp Pm)|].
  split; [apply (stdlike_right b b' f t p p c cap G0 Cap Hcap G Hq _ _ _ _ tuple_WK Tr R1)|].
  split; [apply (stdlike_right b b' f t p p c cap G0 Cap Hcap G Hq _ _ _ _ tuple_WQ Tr R2)|].
  split; [apply (stdlike_right b b' f t p p c cap G0 Cap Hcap G Hq _ _ _ _ tuple_BK Tr R3)|].
  split; [apply (stdlike_right b b' f t p p c cap G0 Cap Hcap G Hq _ _ _ _ tuple_BQ Tr R4)|].
  apply (std_ep_shape b b' f t p c Lf Lt G Te Se).
Qed.

Lemma apply_promo_Repr b f t cap pp b' :
  Repr b -> gen_shape b (Promo f t cap pp) -> apply_promo T b f t cap pp = Ok b' -> Repr b'.
Proof.
  intros ((W & E1 & E2 & E3 & E4) & K1 & K2 & Pm & R1 & R2 & R3 & R4 & Ep) (Lf & Lt & Hcap & NK & NP & Last) H.
  cbn [mv_from mv_to] in Lf, Lt.
  destruct (apply_promo_cells T b f t cap pp b' W Lt H) as (c & G0 & Cap & G & P & W').
  destruct (pushed_wf _ _ _ _ P E4) as (F1 & F2 & F3 & F4 & Te & Tr).
  assert (Hq : pp = Pawn \/ (Pawn = Pawn /\ pp <> King)) by (right; split; [reflexivity|exact NK]).
  split; [tauto|].
  split; [apply (stdlike_one_king b b' f t Pawn pp c cap G0 Cap Hcap G Hq White K1)|].
  split; [apply (stdlike_one_king b b' f t Pawn pp c cap G0 Cap Hcap G Hq Black K2)|].
  split; [apply (stdlike_pawns b b' f t pp c G); [intro X; contradiction|exact Pm]|].
  split; [apply (stdlike_right b b' f t Pawn pp c cap G0 Cap Hcap G Hq _ _ _ _ tuple_WK Tr R1)|].
  split; [apply (stdlike_right b b' f t Pawn pp c cap G0 Cap Hcap G Hq _ _ _ _ tuple_WQ Tr R2)|].
  split; [apply (stdlike_right b b' f t Pawn pp c cap G0 Cap Hcap G Hq _ _ _ _ tuple_BK Tr R3)|].
  split; [apply (stdlike_right b b' f t Pawn pp c cap G0 Cap Hcap G Hq _ _ _ _ tuple_BQ Tr R4)|].
  apply ep_shape_0. rewrite Te, (ep_target_closed c f t Lf Lt).
  destruct c.
  - destruct ((48 <=? f) && (f <? 56) && (32 <=? t) && (t <? 40)) eqn:C; [|reflexivity].
    rewrite !andb_true_iff, !N.leb_le, !N.ltb_lt in C. lia.
  - destruct ((8 <=? f) && (f <? 16) && (24 <=? t) && (t <? 32)) eqn:C; [|reflexivity].
    rewrite !andb_true_iff, !N.leb_le, !N.ltb_lt in C. lia.
Qed.


Lemma color_dec (c c0 : color) : c = c0 \/ c <> c0.
Proof. destruct c, c0; try (left; reflexivity); right; discriminate. Qed.

Lemma apply_ep_Repr b f t b' :
  Repr b -> gen_shape b (EnPassant f t) -> apply_ep T b f t = Ok b' -> Repr b'.
Proof.
  intros ((W & E1 & E2 & E3 & E4) & K1 & K2 & Pm & R1 & R2 & R3 & R4 & Ep) (Lf & Lt & Pk & S) H.
  cbn [mv_from mv_to] in Lf, Lt.
  pose proof (apply_ep_cells T b f t b' W Lt H) as X. cbv zeta in X.
  destruct X as (c & pc2 & G0 & Ncs & Lcs & Gcs & G & P & W').
  rewrite G0 in S. destruct (peek_ep_top _ _ Pk) as [Tep _].
  destruct (ep_victim b c t Ep Tep Lt S) as (V & Vt & Lt8 & Lt56 & Lc8 & Lc56).
  destruct (pushed_wf _ _ _ _ P E4) as (F1 & F2 & F3 & F4 & Te & Tr).
  set (cs := ep_captured_square c t) in *.
  assert (KK : forall c0, one_king b c0 -> one_king b' c0).
  { intros c0 [k K]. exists k. intro j. rewrite G.
    destruct (N.eqb_spec j t) as [Ejt|Njt].
    { split; intro X; [discriminate|]. exfalso. rewrite <- X, Ejt in K.
      pose proof (proj2 (K t) eq_refl) as Y. congruence. }
    destruct (N.eqb_spec j cs) as [Ejc|Njc].
    { split; intro X; [discriminate|]. exfalso. rewrite <- X, Ejc in K.
      pose proof (proj2 (K cs) eq_refl) as Y. congruence. }
    destruct (N.eqb_spec j f) as [Ejf|Njf]; [|apply K].
    split; intro X; [discriminate|]. exfalso. rewrite <- X, Ejf in K.
    pose proof (proj2 (K f) eq_refl) as Y. congruence. }
  assert (RR : forall i ksq rsq c0, right_home b i ksq rsq c0 -> right_home b' i ksq rsq c0).
  { intros i ksq rsq c0 Hold M. rewrite Tr in M. destruct (Hold M) as [Kk Kr]. split; rewrite G.
    - destruct (N.eqb_spec ksq t) as [Y|_]; [congruence|].
      destruct (N.eqb_spec ksq cs) as [Y|_]; [congruence|].
      destruct (N.eqb_spec ksq f) as [Y|_]; [congruence|exact Kk].
    - destruct (N.eqb_spec rsq t) as [Y|_]; [congruence|].
      destruct (N.eqb_spec rsq cs) as [Y|_]; [congruence|].
      destruct (N.eqb_spec rsq f) as [Y|_]; [congruence|exact Kr]. }
  split; [tauto|].
  split; [apply KK, K1|]. split; [apply KK, K2|].
  split.
  { intros j c' Gj. rewrite G in Gj.
    destruct (N.eqb_spec j t) as [Ejt|Njt]; [rewrite Ejt; tauto|].
    destruct (N.eqb_spec j cs) as [Ejc|Njc]; [discriminate|].
    destruct (N.eqb_spec j f) as [Ejf|Njf]; [discriminate|apply (Pm _ _ Gj)]. }
  split; [apply RR, R1|]. split; [apply RR, R2|]. split; [apply RR, R3|]. split; [apply RR, R4|].
  apply ep_shape_0. exact Te.
Qed.

Lemma apply_castle_Repr b f t b' :
  Repr b -> gen_shape b (Castle f t) -> apply_castle T b f t = Ok b' -> Repr b'.
Proof.
  intros ((W & E1 & E2 & E3 & E4) & K1 & K2 & Pm & R1 & R2 & R3 & R4 & Ep) (Lf & Lt & _) H.
  cbn [mv_from mv_to] in Lf, Lt.
  destruct (apply_castle_cells T b f t b' W Lt H) as (c & rf & rt & Sh & Gf & Gt & Grf & Grt & Nrt & G & P & W').
  destruct (pushed_wf _ _ _ _ P E4) as (F1 & F2 & F3 & F4 & Te & Tr).
  assert (KK : forall c0, one_king b c0 -> one_king b' c0).
  { intros c0 [k K]. destruct (color_dec c c0) as [Ec|Nc].
    - assert (Ek : f = k) by (apply K; congruence).
      exists t. intro j. rewrite G.
      destruct (N.eqb_spec j rt) as [Y|_]; [split; intro X; [discriminate|congruence]|].
      destruct (N.eqb_spec j rf) as [Y|_]; [split; intro X; [discriminate|congruence]|].
      destruct (N.eqb_spec j t) as [Y|Njt]; [rewrite Ec; tauto|].
      destruct (N.eqb_spec j f) as [Y|Njf]; [split; intro X; [discriminate|congruence]|].
      split; intro X; [apply K in X; congruence|contradiction].
    - exists k. intro j. rewrite G.
      destruct (N.eqb_spec j rt) as [Y|_].
      { split; intro X; [discriminate|]. exfalso. pose proof (proj2 (K k) eq_refl) as Z. congruence. }
      destruct (N.eqb_spec j rf) as [Y|_].
      { split; intro X; [discriminate|]. exfalso. pose proof (proj2 (K k) eq_refl) as Z. congruence. }
      destruct (N.eqb_spec j t) as [Y|_].
      { split; intro X; [exfalso; congruence|]. exfalso. pose proof (proj2 (K k) eq_refl) as Z. congruence. }
      destruct (N.eqb_spec j f) as [Y|_]; [|apply K].
      split; intro X; [discriminate|]. exfalso. pose proof (proj2 (K k) eq_refl) as Z.
      apply Nc. congruence. }
  assert (RR : forall i ksq rsq c0, right_tuple i ksq rsq c0 ->
                right_home b i ksq rsq c0 -> right_home b' i ksq rsq c0).
  { intros i ksq rsq c0 R Hold M. rewrite Tr, mem_new_rights in M.
    apply andb_true_iff in M. destruct M as [M1 M2]. apply negb_true_iff in M2.
    destruct (color_dec c c0) as [Ec|Nc].
    { exfalso. rewrite Ec, (lost_castle _ _ _ _ R) in M2. discriminate. }
    destruct (Hold M1) as [Kk Kr]. split; rewrite G.
    - destruct (N.eqb_spec ksq rt) as [Y|_]; [congruence|].
      destruct (N.eqb_spec ksq rf) as [Y|_]; [congruence|].
      destruct (N.eqb_spec ksq t) as [Y|_]; [congruence|].
      destruct (N.eqb_spec ksq f) as [Y|_]; [exfalso; apply Nc; congruence|exact Kk].
    - destruct (N.eqb_spec rsq rt) as [Y|_]; [congruence|].
      destruct (N.eqb_spec rsq rf) as [Y|_]; [exfalso; apply Nc; congruence|].
      destruct (N.eqb_spec rsq t) as [Y|_]; [congruence|].
      destruct (N.eqb_spec rsq f) as [Y|_]; [congruence|exact Kr]. }
  split; [tauto|].
  split; [apply KK, K1|]. split; [apply KK, K2|].
  split.
  { intros j c' Gj. rewrite G in Gj.
    destruct (N.eqb_spec j rt) as [Y|_]; [discriminate|].
    destruct (N.eqb_spec j rf) as [Y|_]; [discriminate|].
    destruct (N.eqb_spec j t) as [Y|_]; [discriminate|].
    destruct (N.eqb_spec j f) as [Y|_]; [discriminate|apply (Pm _ _ Gj)]. }
  split; [apply (RR _ _ _ _ tuple_WK R1)|]. split; [apply (RR _ _ _ _ tuple_WQ R2)|].
  split; [apply (RR _ _ _ _ tuple_BK R3)|]. split; [apply (RR _ _ _ _ tuple_BQ R4)|].
  apply ep_shape_0. exact Te.
Qed.

(** C12, one move: a move with the generated shape keeps every clause *)
Theorem apply_Repr m b b' : Repr b -> gen_shape b m -> apply_move T m b = Ok b' -> Repr b'.
Proof.
  destruct m as [f t cap|f t cap pp|f t|f t]; cbn [apply_move]; intros R S H.
  - apply (apply_std_Repr _ _ _ _ _ R S H).
  - apply (apply_promo_Repr _ _ _ _ _ _ R S H).
  - apply (apply_ep_Repr _ _ _ _ R S H).
  - apply (apply_castle_Repr _ _ _ _ R S H).
Qed.

(** ... and taking it back returns the very same board, so every clause again *)
Theorem undo_apply_gen m b b' : Repr b -> gen_shape b m -> apply_move T m b = Ok b' ->
  undo_move T m b' = Ok b.
Proof.
  intros R S H. destruct (gen_shape_sq_ok_ep_ok b m R S) as [Sq Ev].
  apply (UndoProofs.undo_apply T m b b' (Repr_WF b R) Sq Ev H).
Qed.

Theorem undo_Repr m b b' b'' : Repr b -> gen_shape b m -> apply_move T m b = Ok b' ->
  undo_move T m b' = Ok b'' -> Repr b''.
Proof.
  intros R S H U. rewrite (undo_apply_gen m b b' R S H) in U. inversion U. subst b''. exact R.
Qed.

End Preserve.

(* ------------------------------------------------------------------ *)
(** * non-vacuity *)

Example Repr_start : Repr UndoProofs.start_b.
Proof. apply repr_ok_iff. vm_compute. reflexivity. Qed.

(* Ke1 Ra1 Rh1 Nc3 Pe5 Pb7 / Ke8 Na8 Bc8 Pd5, Black has just played d7d5, White may castle *)
Definition inv_demo : board := set_cr (set_ep UndoProofs.demo_b [bit 43; 0]) [10; 15].

Example Repr_demo : Repr inv_demo.
Proof. apply repr_ok_iff. vm_compute. reflexivity. Qed.

Example gen_shape_demo :
  gen_shape UndoProofs.start_b (Std 12 28 None)
  /\ gen_shape inv_demo (EnPassant 36 43) /\ gen_shape inv_demo (Castle 4 6)
  /\ gen_shape inv_demo (Promo 49 56 (Some Knight) Queen) /\ gen_shape inv_demo (Std 7 63 None).
Proof.
  split; [apply gen_shapeb_spec; vm_compute; reflexivity|].
  split; [apply gen_shapeb_spec; vm_compute; reflexivity|].
  split; [apply gen_shapeb_spec; vm_compute; reflexivity|].
  split; apply gen_shapeb_spec; vm_compute; reflexivity.
Qed.

(* each kind of move applies, and the executable check confirms the theorem's conclusion *)
Example apply_Repr_demo :
  forallb (fun m => match apply_move example_table m inv_demo with Ok b' => repr_ok b' | _ => false end)
    [EnPassant 36 43; Castle 4 6; Castle 4 2; Promo 49 56 (Some Knight) Queen; Std 7 63 None; Std 4 12 None] = true
  /\ match apply_move example_table (Std 12 28 None) UndoProofs.start_b with
     | Ok b' => top (ep_stack b') = bit 20 /\ repr_ok b' = true | _ => False end.
Proof. vm_compute. split; [reflexivity|]. split; reflexivity. Qed.

(* the shape facts are needed: capturing a king, or a "double step" that changes file,
   breaks the invariant although apply_move accepts the move *)
Example shape_needed :
  match apply_move example_table (Std 7 60 (Some King)) (set_cr (set_ep UndoProofs.demo_b [0]) [10]) with
  | Ok b' => repr_ok b' = false | _ => False end
  /\ match apply_move example_table (Std 12 31 None) UndoProofs.start_b with
     | Ok b' => repr_ok b' = false | _ => False end.
Proof. vm_compute. split; reflexivity. Qed.

Print Assumptions repr_ok_iff.
Print Assumptions rights_monotone_seq.
Print Assumptions gen_shapeb_spec.
Print Assumptions gen_shape_sq_ok_ep_ok.
Print Assumptions apply_Repr.
Print Assumptions undo_Repr.
