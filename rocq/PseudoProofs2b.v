(* PseudoProofs2b.v — C01, pseudo-legal layer, pawns, part 2: promotions, en passant, the
   rules side (`Rules.pawn_moves_r`) and the refinement theorem `pawn_moves_exact`.
   No axioms. *)
From Coq Require Import Lia ZArith NArith List Bool.
From ChessV Require Import Bits Types Board Moves Rays MoveGen Rules Abs GeomProofs.
From ChessV Require Import BitsLemmas BoardLemmas WfReflect PseudoBase PseudoProofs2.
Import ListNotations.
Open Scope N_scope.
Open Scope list_scope.

(* ------------------------------------------------------------------ *)
(** * partition, promotions *)

Lemma partition_filter {A} (f : A -> bool) l :
  partition f l = (filter f l, filter (fun x => negb (f x)) l).
Proof.
  induction l as [|a l IH]; cbn [partition filter]; [reflexivity|].
  rewrite IH. destruct (f a); reflexivity.
Qed.

Definition promos_of (c : color) (all : list cmove) : list cmove :=
  flat_map (fun m => map (fun pp => Promo (mv_from m) (mv_to m) (mv_captures m) pp) PAWN_PROMOTIONS)
           (filter (fun m => negb (negb (mem (mv_to m) (promo_rank c)))) all).
Definition stds_of (c : color) (all : list cmove) : list cmove :=
  filter (fun m => negb (mem (mv_to m) (promo_rank c))) all.

Lemma pawn_moves_eq b c :
  pawn_moves b c =
  let* eps := ep_moves b c in
  Ok (promos_of c (pawn_all b c) ++ stds_of c (pawn_all b c) ++ eps).
Proof.
  unfold pawn_moves, promos_of, stds_of, pawn_all, pawn_caps. cbv zeta.
  rewrite partition_filter. destruct c; reflexivity.
Qed.

(* what one expanded pawn move becomes *)
Definition arrive_m (c : color) (m0 : cmove) : list cmove :=
  if mem (mv_to m0) (promo_rank c)
  then map (fun pp => Promo (mv_from m0) (mv_to m0) (mv_captures m0) pp) PAWN_PROMOTIONS
  else [m0].

Lemma in_promos_stds c all m :
  In m (promos_of c all ++ stds_of c all) <-> exists m0, In m0 all /\ In m (arrive_m c m0).
Proof.
  unfold promos_of, stds_of, arrive_m. rewrite in_app_iff, in_flat_map. split.
  - intros [[m0 [H0 Hin]]|H].
    + apply filter_In in H0. destruct H0 as [H0 Hp]. rewrite negb_involutive in Hp.
      exists m0. rewrite Hp. tauto.
    + apply filter_In in H. destruct H as [H Hp]. apply negb_true_iff in Hp.
      exists m. rewrite Hp. split; [exact H | left; reflexivity].
  - intros [m0 [H0 Hin]]. destruct (mem (mv_to m0) (promo_rank c)) eqn:Hp.
    + left. exists m0. split; [|exact Hin]. apply filter_In. rewrite Hp. tauto.
    + right. destruct Hin as [<-|[]]. apply filter_In. rewrite Hp. tauto.
Qed.

Lemma pawn_arrivals_arrive c x t cap : t < 64 ->
  pawn_arrivals c x (fileZ t) (rankZ t) cap = arrive_m c (Std x t cap).
Proof.
  intro Lt. unfold pawn_arrivals, arrive_m. cbn [mv_to mv_from mv_captures].
  rewrite sq_file_rank, (mem_promo_rank c t Lt). reflexivity.
Qed.

Lemma NoDup_PAWN_PROMOTIONS : NoDup PAWN_PROMOTIONS.
Proof.
  unfold PAWN_PROMOTIONS.
  repeat (constructor; [cbn [In]; intuition discriminate|]). constructor.
Qed.

Lemma map_id_on {A} (g : A -> A) l : (forall x, In x l -> g x = x) -> map g l = l.
Proof.
  induction l as [|a l IH]; intro H; [reflexivity|]. cbn [map]. rewrite (H a (or_introl eq_refl)), IH; [reflexivity|].
  intros x Hx. apply H. right. exact Hx.
Qed.

Lemma NoDup_promos_of c all :
  NoDup all -> (forall m, In m all -> exists f t cap, m = Std f t cap) -> NoDup (promos_of c all).
Proof.
  intros ND ST. unfold promos_of.
  apply (PB_NoDup_flat_map_key _ (fun m => Std (mv_from m) (mv_to m) (mv_captures m))
           (fun m => Std (mv_from m) (mv_to m) (mv_captures m))).
  - rewrite map_id_on; [apply NoDup_filter, ND|].
    intros m Hm. apply filter_In in Hm. destruct Hm as [Hm _].
    destruct (ST m Hm) as [f [t [cap ->]]]. reflexivity.
  - intros m _. apply PB_NoDup_map_inj; [|apply NoDup_PAWN_PROMOTIONS].
    intros p q _ _ E. inversion E. reflexivity.
  - intros m y _ Hy. apply in_map_iff in Hy. destruct Hy as [pp [<- _]]. reflexivity.
Qed.

(* ------------------------------------------------------------------ *)
(** * en passant, engine side *)

Definition ep_list (b : board) (c : color) (e : N) : list cmove :=
  (if overlaps (pawn_attack_west c (pw (pieces b c))) (bit e)
   then [EnPassant (tz (ep_from_w c (bit e))) e] else [])
  ++ (if overlaps (pawn_attack_east c (pw (pieces b c))) (bit e)
      then [EnPassant (tz (ep_from_e c (bit e))) e] else []).

Lemma ep_moves_zero b c : ep_stack b <> [] -> top (ep_stack b) = 0 -> ep_moves b c = Ok [].
Proof.
  intros S Z. rewrite ep_moves_unfold, (peek_ep_top b S), Z. reflexivity.
Qed.

Lemma ep_moves_bit b c e : ep_stack b <> [] -> top (ep_stack b) = bit e -> e < 64 ->
  ep_moves b c = Ok (ep_list b c e).
Proof.
  intros S Z Le. rewrite ep_moves_unfold, (peek_ep_top b S), Z. cbn [bind].
  rewrite is_empty_bit, (BoardLemmas.tz_bit e Le). reflexivity.
Qed.

Lemma overlaps_bit_iff x e : overlaps x (bit e) = true <-> mem e x = true.
Proof.
  rewrite overlaps_spec. split.
  - intros [i [M1 M2]]. rewrite BitsLemmas.mem_bit in M2. apply N.eqb_eq in M2. subst i. exact M1.
  - intro M. exists e. split; [exact M | apply mem_bit_same].
Qed.

Definition ep_geo (c : color) (x e : N) : Prop :=
  (fileZ e = (fileZ x + 1)%Z \/ fileZ e = (fileZ x - 1)%Z) /\ rankZ e = (rankZ x + forward c)%Z.

Section Ep.
Variable b : board.
Variable c : color.
Hypothesis W : WF b.

Lemma in_ep_west e m : e < 64 ->
  (In m (if overlaps (pawn_attack_west c (pw (pieces b c))) (bit e)
         then [EnPassant (tz (ep_from_w c (bit e))) e] else []) <->
   exists x, x < 64 /\ mem x (pw (pieces b c)) = true
             /\ fileZ e = (fileZ x + 1)%Z /\ rankZ e = (rankZ x + forward c)%Z /\ m = EnPassant x e).
Proof.
  intro Le. split.
  - destruct (overlaps (pawn_attack_west c (pw (pieces b c))) (bit e)) eqn:O; [|intros []].
    intros [<-|[]]. apply overlaps_bit_iff in O.
    apply (lor_hom_lift_mem (pawn_attack_west c) _ e (pawn_attack_west_hom c) (pawns_le b c W)) in O.
    destruct O as [x (Lx & Mx & A)]. exists x.
    destruct (ep_source_west c x e Lx Le A) as (_ & T & _ & _).
    rewrite (attack_west_spec c x e Lx Le) in A. apply andb_true_iff in A. destruct A as [F R].
    apply Z.eqb_eq in F, R. rewrite T. tauto.
  - intros [x (Lx & Mx & F & R & ->)].
    assert (A : mem e (pawn_attack_west c (bit x)) = true).
    { rewrite (attack_west_spec c x e Lx Le), F, R, !Z.eqb_refl. reflexivity. }
    assert (O : overlaps (pawn_attack_west c (pw (pieces b c))) (bit e) = true).
    { apply overlaps_bit_iff.
      apply (lor_hom_lift_mem (pawn_attack_west c) _ e (pawn_attack_west_hom c) (pawns_le b c W)).
      exists x. tauto. }
    rewrite O. destruct (ep_source_west c x e Lx Le A) as (_ & T & _ & _). rewrite T. left. reflexivity.
Qed.

Lemma in_ep_east e m : e < 64 ->
  (In m (if overlaps (pawn_attack_east c (pw (pieces b c))) (bit e)
         then [EnPassant (tz (ep_from_e c (bit e))) e] else []) <->
   exists x, x < 64 /\ mem x (pw (pieces b c)) = true
             /\ fileZ e = (fileZ x - 1)%Z /\ rankZ e = (rankZ x + forward c)%Z /\ m = EnPassant x e).
Proof.
  intro Le. split.
  - destruct (overlaps (pawn_attack_east c (pw (pieces b c))) (bit e)) eqn:O; [|intros []].
    intros [<-|[]]. apply overlaps_bit_iff in O.
    apply (lor_hom_lift_mem (pawn_attack_east c) _ e (pawn_attack_east_hom c) (pawns_le b c W)) in O.
    destruct O as [x (Lx & Mx & A)]. exists x.
    destruct (ep_source_east c x e Lx Le A) as (_ & T & _ & _).
    rewrite (attack_east_spec c x e Lx Le) in A. apply andb_true_iff in A. destruct A as [F R].
    apply Z.eqb_eq in F, R. rewrite T. tauto.
  - intros [x (Lx & Mx & F & R & ->)].
    assert (A : mem e (pawn_attack_east c (bit x)) = true).
    { rewrite (attack_east_spec c x e Lx Le), F, R, !Z.eqb_refl. reflexivity. }
    assert (O : overlaps (pawn_attack_east c (pw (pieces b c))) (bit e) = true).
    { apply overlaps_bit_iff.
      apply (lor_hom_lift_mem (pawn_attack_east c) _ e (pawn_attack_east_hom c) (pawns_le b c W)).
      exists x. tauto. }
    rewrite O. destruct (ep_source_east c x e Lx Le A) as (_ & T & _ & _). rewrite T. left. reflexivity.
Qed.

Lemma in_ep_list e m : e < 64 ->
  (In m (ep_list b c e) <->
   exists x, x < 64 /\ mem x (pw (pieces b c)) = true /\ ep_geo c x e /\ m = EnPassant x e).
Proof.
  intro Le. unfold ep_list, ep_geo. rewrite in_app_iff, (in_ep_west e m Le), (in_ep_east e m Le). split.
  - intros [[x H]|[x H]]; exists x; tauto.
  - intros [x (Lx & Mx & ([F|F] & R) & E)]; [left|right]; exists x; tauto.
Qed.

Lemma NoDup_ep_list e : e < 64 -> NoDup (ep_list b c e).
Proof.
  intro Le. unfold ep_list. apply PB_NoDup_app.
  - destruct (overlaps _ _); repeat constructor. intros [].
  - destruct (overlaps _ _); repeat constructor. intros [].
  - intros m H1 H2. apply (in_ep_west e m Le) in H1. apply (in_ep_east e m Le) in H2.
    destruct H1 as [x (_ & _ & F1 & _ & E1)]. destruct H2 as [x' (_ & _ & F2 & _ & E2)].
    rewrite E1 in E2. inversion E2; subst x'. lia.
Qed.

(* ------------------------------------------------------------------ *)
(** * the common specification of the moves of the pawn on x *)

Definition pawn_spec (x : N) (m : cmove) : Prop :=
  (exists t, t < 64 /\ push1 b c x t /\ In m (pawn_arrivals c x (fileZ t) (rankZ t) None))
  \/ (exists t, t < 64 /\ push2 b c x t /\ m = Std x t None)
  \/ (exists t, t < 64 /\ capt b c x t
                /\ In m (pawn_arrivals c x (fileZ t) (rankZ t) (pget (pieces b (opp_c c)) t)))
  \/ (exists e, e < 64 /\ top (ep_stack b) = bit e /\ ep_geo c x e /\ m = EnPassant x e).

Lemma pget_opp_unocc t : mem t (occupied b) = false -> pget (pieces b (opp_c c)) t = None.
Proof.
  intro H. apply (pget_none _ t (WF_pieces b (opp_c c) W)).
  rewrite (mem_occupied_c b t c) in H. apply orb_false_elim in H. tauto.
Qed.

Lemma push2_not_promo x t : x < 64 -> t < 64 -> push2 b c x t -> mem t (promo_rank c) = false.
Proof.
  intros Lx Lt (_ & R & S & _). rewrite (mem_promo_rank c t Lt). apply Z.eqb_neq.
  rewrite R, S. destruct c; cbn; lia.
Qed.

(* engine: promotions and standard moves *)
Lemma in_promos_stds_spec m :
  In m (promos_of c (pawn_all b c) ++ stds_of c (pawn_all b c)) <->
  exists x, x < 64 /\ mem x (pw (pieces b c)) = true /\
    ((exists t, t < 64 /\ push1 b c x t /\ In m (pawn_arrivals c x (fileZ t) (rankZ t) None))
     \/ (exists t, t < 64 /\ push2 b c x t /\ m = Std x t None)
     \/ (exists t, t < 64 /\ capt b c x t
                   /\ In m (pawn_arrivals c x (fileZ t) (rankZ t) (pget (pieces b (opp_c c)) t)))).
Proof.
  rewrite in_promos_stds. split.
  - intros [m0 [H0 Hin]]. apply (in_pawn_all b c W) in H0.
    destruct H0 as [x [t (Lx & Lt & Mx & P & ->)]]. exists x. split; [exact Lx|]. split; [exact Mx|].
    destruct P as [P|[P|P]].
    + left. exists t. split; [exact Lt|]. split; [exact P|].
      rewrite (pawn_arrivals_arrive c x t None Lt).
      destruct P as (_ & _ & O). rewrite (pget_opp_unocc t O) in Hin. exact Hin.
    + right. left. exists t. split; [exact Lt|]. split; [exact P|].
      unfold arrive_m in Hin. cbn [mv_to] in Hin. rewrite (push2_not_promo x t Lx Lt P) in Hin.
      destruct P as (_ & _ & _ & O & _). rewrite (pget_opp_unocc t O) in Hin.
      destruct Hin as [<-|[]]. reflexivity.
    + right. right. exists t. split; [exact Lt|]. split; [exact P|].
      rewrite (pawn_arrivals_arrive c x t _ Lt). exact Hin.
  - intros [x (Lx & Mx & [[t (Lt & P & Hin)]|[[t (Lt & P & E)]|[t (Lt & P & Hin)]]])].
    + exists (Std x t (pget (pieces b (opp_c c)) t)). split.
      * apply (in_pawn_all b c W). exists x, t. tauto.
      * destruct P as (_ & _ & O). rewrite (pget_opp_unocc t O).
        rewrite <- (pawn_arrivals_arrive c x t None Lt). exact Hin.
    + exists (Std x t (pget (pieces b (opp_c c)) t)). split.
      * apply (in_pawn_all b c W). exists x, t. tauto.
      * unfold arrive_m. cbn [mv_to]. rewrite (push2_not_promo x t Lx Lt P).
        destruct P as (_ & _ & _ & O & _). rewrite (pget_opp_unocc t O). left. symmetry. exact E.
    + exists (Std x t (pget (pieces b (opp_c c)) t)). split.
      * apply (in_pawn_all b c W). exists x, t. tauto.
      * rewrite <- (pawn_arrivals_arrive c x t _ Lt). exact Hin.
Qed.

(* ------------------------------------------------------------------ *)
(** * the engine's pawn list *)

Hypothesis S : ep_stack b <> [].
Hypothesis EI : ep_inv b c.

Theorem pawn_moves_total : exists l, pawn_moves b c = Ok l.
Proof.
  rewrite pawn_moves_eq. destruct EI as [Z|[e (Le & Z & _)]].
  - rewrite (ep_moves_zero b c S Z). cbn [bind]. eexists. reflexivity.
  - rewrite (ep_moves_bit b c e S Z Le). cbn [bind]. eexists. reflexivity.
Qed.

Theorem in_pawn_moves l m : pawn_moves b c = Ok l ->
  (In m l <-> exists x, x < 64 /\ mem x (pw (pieces b c)) = true /\ pawn_spec x m).
Proof.
  rewrite pawn_moves_eq. unfold pawn_spec. destruct EI as [Z|[e (Le & Z & _)]].
  - rewrite (ep_moves_zero b c S Z). cbn [bind]. intro H. apply Ok_inj in H. subst l.
    rewrite app_nil_r, in_promos_stds_spec. split.
    + intros [x (Lx & Mx & H)]. exists x. tauto.
    + intros [x (Lx & Mx & [H|[H|[H|[e (Le & Z' & _)]]]])]; try (exists x; tauto).
      rewrite Z in Z'. exfalso. exact (bit_neq_0 e (eq_sym Z')).
  - rewrite (ep_moves_bit b c e S Z Le). cbn [bind]. intro H. apply Ok_inj in H. subst l.
    rewrite app_assoc, in_app_iff, in_promos_stds_spec, (in_ep_list e m Le). split.
    + intros [[x (Lx & Mx & H)]|[x (Lx & Mx & G & E)]]; exists x; [tauto|].
      split; [exact Lx|]. split; [exact Mx|]. right. right. right. exists e. tauto.
    + intros [x (Lx & Mx & [H|[H|[H|[e' (Le' & Z' & G & E)]]]])]; try (left; exists x; tauto).
      right. rewrite Z in Z'. apply bit_inj in Z'. subst e'. exists x. tauto.
Qed.

Theorem pawn_moves_NoDup l : pawn_moves b c = Ok l -> NoDup l.
Proof.
  rewrite pawn_moves_eq. intro H.
  assert (ST : forall m, In m (pawn_all b c) -> exists f t cap, m = Std f t cap).
  { intros m Hm. apply (in_pawn_all b c W) in Hm. destruct Hm as [x [t (_ & _ & _ & _ & ->)]]. eauto. }
  assert (forall eps, NoDup eps -> (forall m, In m eps -> exists f t, m = EnPassant f t) ->
                      NoDup (promos_of c (pawn_all b c) ++ stds_of c (pawn_all b c) ++ eps)) as K.
  { intros eps ND EP. apply PB_NoDup_app; [apply NoDup_promos_of; [apply NoDup_pawn_all, W | exact ST] | |].
    - apply PB_NoDup_app; [apply NoDup_filter, NoDup_pawn_all, W | exact ND |].
      intros m H1 H2. apply filter_In in H1. destruct H1 as [H1 _].
      destruct (ST m H1) as [f [t [cap ->]]]. destruct (EP _ H2) as [f' [t' X]]. discriminate.
    - intros m H1 H2. unfold promos_of in H1. apply in_flat_map in H1. destruct H1 as [m0 [_ H1]].
      apply in_map_iff in H1. destruct H1 as [pp [<- _]].
      apply in_app_or in H2. destruct H2 as [H2|H2].
      + apply filter_In in H2. destruct H2 as [H2 _]. destruct (ST _ H2) as [f [t [cap X]]]. discriminate.
      + destruct (EP _ H2) as [f' [t' X]]. discriminate. }
  destruct EI as [Z|[e (Le & Z & _)]].
  - rewrite (ep_moves_zero b c S Z) in H. cbn [bind] in H. apply Ok_inj in H. subst l.
    apply K; [constructor | intros m []].
  - rewrite (ep_moves_bit b c e S Z Le) in H. cbn [bind] in H. apply Ok_inj in H. subst l.
    apply K; [apply NoDup_ep_list, Le|].
    intros m Hm. apply (in_ep_list e m Le) in Hm. destruct Hm as [x (_ & _ & _ & ->)]. eauto.
Qed.

(* the shape of the emitted moves: used to separate the piece classes *)
Theorem pawn_moves_shape l m : pawn_moves b c = Ok l -> In m l ->
  (exists f t cap, m = Std f t cap /\ bget b f = Some (Pawn, c))
  \/ (exists f t cap pp, m = Promo f t cap pp) \/ (exists f t, m = EnPassant f t).
Proof.
  intros H Hin. apply (in_pawn_moves l m H) in Hin. destruct Hin as [x (Lx & Mx & P)].
  assert (Bx : bget b x = Some (Pawn, c)) by (apply (bget_mem b x Pawn c W); exact Mx).
  assert (A : forall tf tr cap, In m (pawn_arrivals c x tf tr cap) ->
              (exists f t cap, m = Std f t cap /\ bget b f = Some (Pawn, c))
              \/ (exists f t cap pp, m = Promo f t cap pp) \/ (exists f t, m = EnPassant f t)).
  { intros tf tr cap Hm. unfold pawn_arrivals in Hm. destruct (tr =? last_rank c)%Z.
    - apply in_map_iff in Hm. destruct Hm as [pp [<- _]]. right. left. eauto.
    - destruct Hm as [<-|[]]. left. eauto. }
  destruct P as [[t (_ & _ & Hm)]|[[t (_ & _ & ->)]|[[t (_ & _ & Hm)]|[e (_ & _ & _ & ->)]]]].
  - eapply A, Hm.
  - left. eauto.
  - eapply A, Hm.
  - right. right. eauto.
Qed.

(* ------------------------------------------------------------------ *)
(** * the rules side *)

Definition pushes_r (P : position) (from : N) : list cmove :=
  if on_board (fileZ from) (rankZ from + forward c) && is_empty_cell (atc P (fileZ from) (rankZ from + forward c))
  then pawn_arrivals c from (fileZ from) (rankZ from + forward c) None
       ++ (if (rankZ from =? start_rank c)%Z && is_empty_cell (atc P (fileZ from) (rankZ from + 2 * forward c))
           then [Std from (sq (fileZ from) (rankZ from + 2 * forward c)) None] else [])
  else [].

Definition caps_r (P : position) (from : N) (df : Z) : list cmove :=
  if is_enemy (atc P (fileZ from + df) (rankZ from + forward c)) c
  then pawn_arrivals c from (fileZ from + df) (rankZ from + forward c)
         (cap_of (atc P (fileZ from + df) (rankZ from + forward c)))
  else [].

Definition eps_r (P : position) (from : N) (df : Z) : list cmove :=
  match pep P with
  | Some t => if (t =? sq (fileZ from + df) (rankZ from + forward c))
                 && is_pc (atc P (fileZ from + df) (rankZ from)) Pawn (opp_c c)
                 && is_empty_cell (atc P (fileZ from + df) (rankZ from + forward c))
              then [EnPassant from t] else []
  | None => []
  end.

Lemma pawn_moves_r_eq P from :
  pawn_moves_r P c from =
  pushes_r P from
  ++ flat_map (fun df => if on_board (fileZ from + df) (rankZ from + forward c)
                         then caps_r P from df ++ eps_r P from df else []) [1; -1]%Z.
Proof. reflexivity. Qed.

Lemma sq_of_coords t f r : t < 64 -> fileZ t = f -> rankZ t = r -> on_board f r = true /\ sq f r = t.
Proof.
  intros Lt F R. subst f r. split; [apply file_rank_bounds, Lt | apply sq_file_rank].
Qed.

Lemma is_empty_cell_bget t : is_empty_cell (bget b t) = true <-> mem t (occupied b) = false.
Proof.
  rewrite <- (bget_none_iff b t W). destruct (bget b t); cbn; split; intro H; congruence.
Qed.

Lemma is_enemy_bget t : is_enemy (bget b t) c = true <-> mem t (occ (pieces b (opp_c c))) = true.
Proof.
  rewrite (bget_opp_iff b t c W). split.
  - destruct (bget b t) as [[p col]|]; cbn [is_enemy]; [|discriminate].
    intro E. apply color_eqb_eq in E. subst col. eauto.
  - intros [p E]. rewrite E. cbn [is_enemy]. apply color_eqb_refl.
Qed.

Lemma cap_of_enemy t : mem t (occ (pieces b (opp_c c))) = true ->
  cap_of (bget b t) = pget (pieces b (opp_c c)) t.
Proof.
  intro H. apply (bget_opp_iff b t c W) in H. destruct H as [p E]. rewrite E. cbn [cap_of option_map fst].
  apply (bget_some_iff b t p (opp_c c) W) in E. symmetry. exact E.
Qed.

Lemma in_pushes_r x m : x < 64 ->
  (In m (pushes_r (abstract b) x) <->
   (exists t, t < 64 /\ push1 b c x t /\ In m (pawn_arrivals c x (fileZ t) (rankZ t) None))
   \/ (exists t, t < 64 /\ push2 b c x t /\ m = Std x t None)).
Proof.
  intro Lx. unfold pushes_r, push1, push2.
  destruct (coords_range x Lx) as [Fx Rx].
  split.
  - destruct (on_board (fileZ x) (rankZ x + forward c)) eqn:OB; [|intros []].
    rewrite (atc_abs b _ _ OB). cbn [andb].
    destruct (is_empty_cell (bget b (sq (fileZ x) (rankZ x + forward c)))) eqn:E1; [|intros []].
    apply is_empty_cell_bget in E1. destruct (sq_on_board _ _ OB) as (L1 & F1 & R1).
    intro H. apply in_app_or in H. destruct H as [H|H].
    + left. exists (sq (fileZ x) (rankZ x + forward c)). rewrite F1, R1. tauto.
    + right. destruct (rankZ x =? start_rank c)%Z eqn:ES; [|destruct H]. apply Z.eqb_eq in ES. cbn [andb] in H.
      assert (OB2 : on_board (fileZ x) (rankZ x + 2 * forward c) = true).
      { apply on_board_bounds. rewrite ES. destruct c; cbn; lia. }
      rewrite (atc_abs b _ _ OB2) in H.
      destruct (is_empty_cell (bget b (sq (fileZ x) (rankZ x + 2 * forward c)))) eqn:E2; [|destruct H].
      apply is_empty_cell_bget in E2. destruct (sq_on_board _ _ OB2) as (L2 & F2 & R2).
      destruct H as [<-|[]]. exists (sq (fileZ x) (rankZ x + 2 * forward c)). rewrite F2, R2. tauto.
  - intros [[t (Lt & (F & R & O) & Hin)]|[t (Lt & (F & R & ES & O & O1) & ->)]].
    + destruct (sq_of_coords t _ _ Lt F R) as [OB Et].
      rewrite OB, (atc_abs b _ _ OB), Et. cbn [andb].
      rewrite (proj2 (is_empty_cell_bget t) O). apply in_or_app. left. rewrite <- F, <- R. exact Hin.
    + destruct (sq_of_coords t _ _ Lt F R) as [OB2 Et].
      assert (OB : on_board (fileZ x) (rankZ x + forward c) = true).
      { apply on_board_bounds. rewrite ES. destruct c; cbn; lia. }
      rewrite OB, (atc_abs b _ _ OB). cbn [andb]. rewrite (proj2 (is_empty_cell_bget _) O1).
      apply in_or_app. right.
      rewrite (proj2 (Z.eqb_eq _ _) ES), (atc_abs b _ _ OB2), Et. cbn [andb].
      rewrite (proj2 (is_empty_cell_bget t) O). left. reflexivity.
Qed.

Lemma abs_ep_zero : top (ep_stack b) = 0 -> pep (abstract b) = None.
Proof. intro Z. cbn [pep abstract]. unfold abs_ep. cbv zeta. rewrite Z. reflexivity. Qed.

Lemma abs_ep_bit e : e < 64 -> top (ep_stack b) = bit e -> pep (abstract b) = Some e.
Proof.
  intros Le Z. cbn [pep abstract]. unfold abs_ep. cbv zeta. rewrite Z, is_empty_bit, (BoardLemmas.tz_bit e Le).
  reflexivity.
Qed.

Lemma in_side_r x df m : x < 64 -> (df = 1 \/ df = -1)%Z ->
  (In m (if on_board (fileZ x + df) (rankZ x + forward c)
         then caps_r (abstract b) x df ++ eps_r (abstract b) x df else []) <->
   (exists t, t < 64 /\ fileZ t = (fileZ x + df)%Z /\ rankZ t = (rankZ x + forward c)%Z
              /\ mem t (occ (pieces b (opp_c c))) = true
              /\ In m (pawn_arrivals c x (fileZ t) (rankZ t) (pget (pieces b (opp_c c)) t)))
   \/ (exists e, e < 64 /\ top (ep_stack b) = bit e /\ fileZ e = (fileZ x + df)%Z
                 /\ rankZ e = (rankZ x + forward c)%Z /\ m = EnPassant x e)).
Proof.
  intros Lx Hdf. destruct (coords_range x Lx) as [Fx Rx]. split.
  - destruct (on_board (fileZ x + df) (rankZ x + forward c)) eqn:OB; [|intros []].
    destruct (sq_on_board _ _ OB) as (L1 & F1 & R1).
    intro H. apply in_app_or in H. destruct H as [H|H].
    + left. unfold caps_r in H. rewrite (atc_abs b _ _ OB) in H.
      destruct (is_enemy (bget b (sq (fileZ x + df) (rankZ x + forward c))) c) eqn:E; [|destruct H].
      apply is_enemy_bget in E. rewrite (cap_of_enemy _ E) in H.
      exists (sq (fileZ x + df) (rankZ x + forward c)). rewrite F1, R1. tauto.
    + right. unfold eps_r in H. destruct EI as [Z|[e (Le & Z & En & Ev)]].
      * rewrite (abs_ep_zero Z) in H. destruct H.
      * rewrite (abs_ep_bit e Le Z) in H.
        destruct (e =? sq (fileZ x + df) (rankZ x + forward c)) eqn:E1; [|destruct H].
        apply N.eqb_eq in E1. cbn [andb] in H.
        destruct (is_pc _ Pawn (opp_c c) && is_empty_cell _); [|destruct H].
        destruct H as [<-|[]]. exists e. rewrite E1, F1, R1. rewrite <- E1. tauto.
  - intros [[t (Lt & F & R & O & Hin)]|[e (Le & Z & F & R & ->)]].
    + destruct (sq_of_coords t _ _ Lt F R) as [OB Et]. rewrite OB. apply in_or_app. left.
      unfold caps_r. rewrite (atc_abs b _ _ OB), Et, (proj2 (is_enemy_bget t) O), (cap_of_enemy t O).
      rewrite <- F, <- R. exact Hin.
    + destruct (sq_of_coords e _ _ Le F R) as [OB Et]. rewrite OB. apply in_or_app. right.
      unfold eps_r. rewrite (abs_ep_bit e Le Z), Et, N.eqb_refl. cbn [andb].
      destruct EI as [Z0|[e' (Le' & Z' & En & Ev)]]; [rewrite Z in Z0; exfalso; exact (bit_neq_0 e Z0)|].
      rewrite Z in Z'. apply bit_inj in Z'. subst e'.
      rewrite (atc_abs b _ _ OB), Et, En. cbn [is_empty_cell]. rewrite andb_true_r.
      assert (OBv : on_board (fileZ x + df) (rankZ x) = true).
      { apply on_board_bounds. apply on_board_bounds in OB. lia. }
      rewrite (atc_abs b _ _ OBv).
      assert (ep_captured_square c e = sq (fileZ x + df) (rankZ x)) as Ec.
      { rewrite (ep_captured_square_coord c e Le), F, R.
        replace (rankZ x + forward c - forward c)%Z with (rankZ x) by lia. rewrite OBv. reflexivity. }
      rewrite <- Ec, Ev. rewrite (proj2 (is_pc_iff _ Pawn (opp_c c)) eq_refl). left. reflexivity.
Qed.

Theorem in_pawn_moves_r x m : x < 64 -> (In m (pawn_moves_r (abstract b) c x) <-> pawn_spec x m).
Proof.
  intro Lx. rewrite pawn_moves_r_eq, in_app_iff, (in_pushes_r x m Lx), in_flat_map.
  unfold pawn_spec, capt, ep_geo. split.
  - intros [[H|H]|[df [Hdf H]]]; [tauto | tauto |].
    assert (df = 1 \/ df = -1)%Z as D by (cbn [In] in Hdf; intuition).
    apply (in_side_r x df m Lx D) in H.
    destruct H as [[t (Lt & F & R & O & Hin)]|[e (Le & Z & F & R & E)]].
    + right. right. left. exists t. split; [exact Lt|]. split; [|exact Hin].
      split; [destruct D; subst df; tauto | tauto].
    + right. right. right. exists e. split; [exact Le|]. split; [exact Z|].
      split; [|exact E]. split; [destruct D; subst df; tauto | exact R].
  - intros [H|[H|[[t (Lt & ([F|F] & R & O) & Hin)]|[e (Le & Z & ([F|F] & R) & E)]]]]; [tauto | tauto | | | |].
    + right. exists 1%Z. split; [left; reflexivity|]. apply (in_side_r x 1 m Lx); [tauto|]. left. exists t. tauto.
    + right. exists (-1)%Z. split; [right; left; reflexivity|]. apply (in_side_r x (-1) m Lx); [tauto|].
      left. exists t. tauto.
    + right. exists 1%Z. split; [left; reflexivity|]. apply (in_side_r x 1 m Lx); [tauto|]. right. exists e. tauto.
    + right. exists (-1)%Z. split; [right; left; reflexivity|]. apply (in_side_r x (-1) m Lx); [tauto|].
      right. exists e. tauto.
Qed.

(* ------------------------------------------------------------------ *)
(** * the refinement *)

Theorem pawn_moves_exact l m : pawn_moves b c = Ok l ->
  (In m l <-> In m (on_squares (abstract b) c Pawn (pawn_moves_r (abstract b) c))).
Proof.
  intro H. rewrite (in_pawn_moves l m H), in_on_squares. split.
  - intros [x (Lx & Mx & P)]. exists x. split; [exact Lx|].
    split; [apply (bget_mem b x Pawn c W), Mx|]. apply (in_pawn_moves_r x m Lx). exact P.
  - intros [x (Lx & Bx & P)]. exists x. split; [exact Lx|].
    split; [apply (bget_mem b x Pawn c W), Bx|]. apply (in_pawn_moves_r x m Lx). exact P.
Qed.

End Ep.

(* ------------------------------------------------------------------ *)
(** * non-vacuity *)

Fixpoint PP2_put_all (b : board) (l : list (N * piece * color)) : board :=
  match l with
  | [] => b
  | (i, p, c) :: rest =>
      match put example_table b i p c with Ok b' => PP2_put_all b' rest | _ => b end
  end.

(* white: Ke1, pawns a2 (start), e5 (ep capturer), g7 (promotes, may take h8), c3;  black: Ke8, pawns d5 (just
   double-stepped: ep target d6), b3 (blocks nothing, capturable from a2/c... ), rook h8 *)
Definition PP2_board : board :=
  set_ep (set_cr (PP2_put_all board_new
     [(4, King, White); (60, King, Black); (8, Pawn, White); (36, Pawn, White); (54, Pawn, White);
      (18, Pawn, White); (35, Pawn, Black); (17, Pawn, Black); (63, Rook, Black)]) [0]) [bit 43; 0].

Example PP2_board_inv : pinvb PP2_board White = true.
Proof. vm_compute. reflexivity. Qed.

Example PP2_pawn_moves :
  pawn_moves PP2_board White
  = Ok [Promo 54 62 None Queen; Promo 54 62 None Rook; Promo 54 62 None Bishop; Promo 54 62 None Knight;
        Promo 54 63 (Some Rook) Queen; Promo 54 63 (Some Rook) Rook; Promo 54 63 (Some Rook) Bishop;
        Promo 54 63 (Some Rook) Knight;
        Std 8 16 None; Std 8 24 None; Std 18 26 None; Std 36 44 None; Std 8 17 (Some Pawn);
        EnPassant 36 43].
Proof. vm_compute. reflexivity. Qed.

Example PP2_pawn_moves_r :
  on_squares (abstract PP2_board) White Pawn (pawn_moves_r (abstract PP2_board) White)
  = [Std 8 16 None; Std 8 24 None; Std 8 17 (Some Pawn); Std 18 26 None; Std 36 44 None; EnPassant 36 43;
     Promo 54 62 None Queen; Promo 54 62 None Rook; Promo 54 62 None Bishop; Promo 54 62 None Knight;
     Promo 54 63 (Some Rook) Queen; Promo 54 63 (Some Rook) Rook; Promo 54 63 (Some Rook) Bishop;
     Promo 54 63 (Some Rook) Knight].
Proof. vm_compute. reflexivity. Qed.

Print Assumptions pawn_moves_exact.
Print Assumptions pawn_moves_NoDup.
Print Assumptions pawn_moves_total.
