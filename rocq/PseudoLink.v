(* PseudoLink.v — the generation-layer invariant `PInv` follows from the reachable-board
   invariant `InvC` of InvProofs2.v.  No axioms. *)
From Coq Require Import Lia ZArith NArith List Bool.
From ChessV Require Import Bits Types Board Moves Rays MoveGen Rules Abs.
From ChessV Require Import BitsLemmas BoardLemmas WfReflect PseudoBase PseudoProofs.
From ChessV Require InvProofs InvProofs2.
Import ListNotations.
Open Scope N_scope.

Theorem InvC_PInv rook_t bishop_t b c : InvProofs2.InvC rook_t bishop_t b c -> PInv b c.
Proof.
  intros (R & _ & E & F). apply InvProofs.repr_ok_iff in R.
  apply repr_ok_PInv; [exact R | apply fits64_le, F |].
  destruct E as [E|E].
  - rewrite E. reflexivity.
  - apply orb_true_iff. right. apply N.eqb_eq. rewrite E. destruct c; reflexivity.
Qed.

Corollary Inv_PInv rook_t bishop_t b : InvProofs2.Inv rook_t bishop_t b -> PInv b (turn b).
Proof. apply InvC_PInv. Qed.

(* under the reachable-board invariant: totality, no duplicates, the set *)
Corollary pseudo_exact_InvC rook_t bishop_t b c l :
  (forall x o, x < 64 -> rook_t x o = rook_ref x o) ->
  (forall x o, x < 64 -> bishop_t x o = bishop_ref x o) ->
  InvProofs2.InvC rook_t bishop_t b c ->
  pseudo_moves rook_t bishop_t b c = Ok l ->
  NoDup l
  /\ forall m, (In m l <-> In m (pseudo_legal (abstract b) c) \/ castle_into_attack b c l m).
Proof.
  intros Hr Hb I H. apply (pseudo_exact rook_t bishop_t Hr Hb b c (InvC_PInv _ _ _ _ I) l H).
Qed.

Example Inv_PInv_start : PInv UndoProofs.start_b White.
Proof. apply pinvb_sound. vm_compute. reflexivity. Qed.

Print Assumptions InvC_PInv.
Print Assumptions pseudo_exact_InvC.
