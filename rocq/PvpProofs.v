(* PvpProofs.v — C14 at the level of the typed LINE and of the whole SESSION, over the
   player-vs-player model Pvp.v (trim, parse_input over the translated regexes, exec_command,
   pvp_step, pvp_over, pvp_run).

     trim_id                  trim is the identity on strings without outer white space
     parse_coord_line         a coordinate pair of two squares is read as CmdCoord
     parse_label_line         every well-formed SAN label is read as CmdAlg
     parse_input_sound        a CmdCoord command consists of two squares (and is the trimmed line)
     exec_coord_no_panic      executing such a command never panics
     legal_label_in_space     the FIDE label of every legal move lies in the label space (hence
                              is accepted by ALGEBRAIC_RE and rejected by COORDINATE_RE)
     no_shadowing             no label of a legal move is a coordinate pair
     pvp_step_spec            the line-level C14
     pvp_step_accepts_iff     accepted iff the trimmed line names a legal move
     pvp_step_plays_coords / pvp_step_plays_label / pvp_step_promotion_queen
                              the accepted line plays precisely the move it names
     pvp_step_unparsed_iff / pvp_step_refused_iff
     pvp_run_inv              the session invariant (no panic, Inv everywhere, every consecutive
                              pair of states is one line-level C14 step, the verdict is exact)
   Proofs only; no axioms. *)
From Coq Require Import Lia ZArith NArith List Bool String Ascii.
From ChessV Require Import Bits Types Board Moves Rays MoveGen Rules Abs San Eval Game Regex Pvp.
From ChessV Require Import InvProofs InvProofs2 GenFrame GenExact VerdictExact.
From ChessV Require Import RegexProofs UciProofs SanProofs SanClosed CounterProofs C14Closed.
From ChessV Require Import MagicExample.
From ChessV Require UndoProofs SuccProofs Congr GenTotal.
Import ListNotations.
Open Scope N_scope.
Open Scope list_scope.
Open Scope string_scope.

#[local] Arguments N.add : simpl never.
#[local] Arguments N.sub : simpl never.
#[local] Arguments N.mul : simpl never.
#[local] Arguments N.div : simpl never.
#[local] Arguments N.modulo : simpl never.
#[local] Arguments N.eqb : simpl never.
#[local] Arguments N.ltb : simpl never.
#[local] Arguments N.leb : simpl never.
#[local] Arguments N.of_nat : simpl never.
#[local] Arguments N.shiftl : simpl never.
#[local] Arguments N.shiftr : simpl never.
#[local] Arguments N.land : simpl never.
#[local] Arguments N.lor : simpl never.
#[local] Arguments N.lxor : simpl never.
#[local] Arguments N.ldiff : simpl never.
#[local] Arguments N.testbit : simpl never.

(* ================================================================================== *)
(** * 1. trim                                                                           *)
(* ================================================================================== *)

Lemma string_app_empty : forall s : string, s ++ "" = s.
Proof. induction s as [|c r IH]; [reflexivity|]. cbn [append]. rewrite IH. reflexivity. Qed.

Lemma rev_string_rev : forall s a b, rev_string (rev_string s a) b = rev_string a (s ++ b).
Proof.
  induction s as [|c r IH]; intros a b; [reflexivity|].
  cbn [rev_string append]. rewrite IH. reflexivity.
Qed.

(* the last character of [String d s] *)
Fixpoint last_char (s : string) (d : ascii) : ascii :=
  match s with EmptyString => d | String c r => last_char r c end.

Lemma rev_string_head : forall r c acc,
  exists r', rev_string (String c r) acc = String (last_char r c) r'.
Proof.
  induction r as [|d r IH]; intros c acc.
  - exists acc. reflexivity.
  - destruct (IH d (String c acc)) as [r' E]. exists r'.
    cbn [last_char]. rewrite <- E. reflexivity.
Qed.

(* no white space at either end (the empty string included) *)
Definition no_outer_space (s : string) : bool :=
  match s with
  | EmptyString => true
  | String c r => negb (is_space c) && negb (is_space (last_char r c))
  end.

Lemma trim_start_id : forall c r, is_space c = false -> trim_start (String c r) = String c r.
Proof. intros c r H. cbn [trim_start]. rewrite H. reflexivity. Qed.

Theorem trim_id : forall s, no_outer_space s = true -> trim s = s.
Proof.
  intros [|c r] H; [reflexivity|].
  cbn [no_outer_space] in H. apply andb_true_iff in H. destruct H as [H1 H2].
  apply negb_true_iff in H1. apply negb_true_iff in H2.
  unfold trim. rewrite (trim_start_id c r H1). unfold trim_end.
  destruct (rev_string_head r c EmptyString) as [r' E].
  rewrite E, (trim_start_id _ r' H2), <- E, rev_string_rev.
  cbn [rev_string]. apply string_app_empty.
Qed.

(* the two finite families of well-formed lines have no outer white space: complete sweeps *)
Lemma coord_lines_no_space :
  forallb (fun f => forallb (fun t => no_outer_space (sq_str f ++ sq_str t)) squares) squares = true.
Proof. vm_compute. reflexivity. Qed.

Lemma trim_coord_line : forall f t, f < 64 -> t < 64 -> trim (sq_str f ++ sq_str t) = sq_str f ++ sq_str t.
Proof.
  intros f t Hf Ht. apply trim_id. pose proof coord_lines_no_space as H.
  rewrite forallb_forall in H. specialize (H f (in_squares f Hf)). rewrite forallb_forall in H.
  exact (H t (in_squares t Ht)).
Qed.

(* measured: a few seconds *)
Lemma labels_no_space : forallb no_outer_space all_labels = true.
Proof. vm_compute. reflexivity. Qed.

Lemma trim_label_line : forall s, In s all_labels -> trim s = s.
Proof.
  intros s H. apply trim_id. pose proof labels_no_space as L. rewrite forallb_forall in L. exact (L s H).
Qed.

(* ================================================================================== *)
(** * 2. parse_input                                                                    *)
(* ================================================================================== *)

(* parse_input after the trim *)
Definition classify (s : string) : option command :=
  if full_match COORDINATE_RE s then
    match s with
    | String f1 (String r1 (String f2 (String r2 EmptyString))) =>
        Some (CmdCoord (String f1 (String r1 EmptyString)) (String f2 (String r2 EmptyString)))
    | _ => None
    end
  else if full_match ALGEBRAIC_RE s then Some (CmdAlg s)
  else None.

Lemma parse_input_classify : forall raw, parse_input raw = classify (trim raw).
Proof. reflexivity. Qed.

Lemma classify_coord : forall f t, f < 64 -> t < 64 ->
  classify (sq_str f ++ sq_str t) = Some (CmdCoord (sq_str f) (sq_str t)).
Proof.
  intros f t Hf Ht. unfold classify. rewrite (coordinates_accepted f t Hf Ht). reflexivity.
Qed.

Lemma classify_label : forall s, In s all_labels -> classify s = Some (CmdAlg s).
Proof.
  intros s H. destruct (labels_accepted s H) as [A C]. unfold classify. rewrite C, A. reflexivity.
Qed.

Theorem parse_coord_line : forall f t, f < 64 -> t < 64 ->
  parse_input (sq_str f ++ sq_str t) = Some (CmdCoord (sq_str f) (sq_str t)).
Proof.
  intros f t Hf Ht. rewrite parse_input_classify, (trim_coord_line f t Hf Ht).
  apply classify_coord; assumption.
Qed.

Theorem parse_label_line : forall s, In s all_labels -> parse_input s = Some (CmdAlg s).
Proof.
  intros s H. rewrite parse_input_classify, (trim_label_line s H). apply classify_label. exact H.
Qed.

(* in particular every label the SAN writer prints *)
Corollary parse_printed_label : forall b all m e s,
  san_label b all m e = Ok s -> label_hyps b all m -> parse_input s = Some (CmdAlg s).
Proof.
  intros b all m e s H Hh. apply parse_label_line. apply (san_label_shape b all m e s Hh H).
Qed.

(* ---- the shape of COORDINATE_RE ---- *)

Lemma square_of_chars : forall c1 c2,
  in_class c1 "abcdefgh" = true -> in_class c2 "12345678" = true ->
  exists f, f < 64 /\ String c1 (String c2 EmptyString) = sq_str f.
Proof.
  intros c1 c2 H1 H2. cbn [in_class] in H1, H2.
  rewrite !orb_true_iff, !Ascii.eqb_eq in H1, H2.
  exists ((N_of_ascii c1 - 97) + 8 * (N_of_ascii c2 - 49)).
  destruct H1 as [->|[->|[->|[->|[->|[->|[->|[->|H1]]]]]]]]; try discriminate H1;
    destruct H2 as [->|[->|[->|[->|[->|[->|[->|[->|H2]]]]]]]]; try discriminate H2;
    vm_compute; split; reflexivity.
Qed.

Lemma coordinate_re_shape : forall s, full_match COORDINATE_RE s = true ->
  exists c1 c2 c3 c4,
    s = String c1 (String c2 (String c3 (String c4 EmptyString)))
    /\ in_class c1 "abcdefgh" = true /\ in_class c2 "12345678" = true
    /\ in_class c3 "abcdefgh" = true /\ in_class c4 "12345678" = true.
Proof.
  intros s H. unfold full_match, COORDINATE_RE in H. cbn [matches] in H.
  destruct s as [|c1 s]; [discriminate H|].
  destruct (in_class c1 "abcdefgh") eqn:E1; [|discriminate H].
  destruct s as [|c2 s]; [discriminate H|].
  destruct (in_class c2 "12345678") eqn:E2; [|discriminate H].
  destruct s as [|c3 s]; [discriminate H|].
  destruct (in_class c3 "abcdefgh") eqn:E3; [|discriminate H].
  destruct s as [|c4 s]; [discriminate H|].
  destruct (in_class c4 "12345678") eqn:E4; [|discriminate H].
  destruct s as [|c5 s]; [|discriminate H].
  exists c1, c2, c3, c4. repeat split; assumption.
Qed.

(* COORDINATE_RE accepts exactly the pairs of squares *)
Theorem coordinate_re_iff : forall s,
  full_match COORDINATE_RE s = true <-> exists f t, f < 64 /\ t < 64 /\ s = sq_str f ++ sq_str t.
Proof.
  intros s. split.
  - intro H. destruct (coordinate_re_shape s H) as (c1 & c2 & c3 & c4 & -> & H1 & H2 & H3 & H4).
    destruct (square_of_chars c1 c2 H1 H2) as (f & Hf & Ef).
    destruct (square_of_chars c3 c4 H3 H4) as (t & Ht & Et).
    exists f, t. split; [exact Hf|]. split; [exact Ht|]. rewrite <- Ef, <- Et. reflexivity.
  - intros (f & t & Hf & Ht & ->). apply coordinates_accepted; assumption.
Qed.

Lemma classify_sound_coord : forall s a b, classify s = Some (CmdCoord a b) ->
  exists f t, f < 64 /\ t < 64 /\ a = sq_str f /\ b = sq_str t /\ s = a ++ b.
Proof.
  intros s a b H. unfold classify in H.
  destruct (full_match COORDINATE_RE s) eqn:C.
  - destruct (coordinate_re_shape s C) as (c1 & c2 & c3 & c4 & -> & H1 & H2 & H3 & H4).
    inversion H; subst a b.
    destruct (square_of_chars c1 c2 H1 H2) as (f & Hf & Ef).
    destruct (square_of_chars c3 c4 H3 H4) as (t & Ht & Et).
    exists f, t. repeat split; try assumption.
  - destruct (full_match ALGEBRAIC_RE s); discriminate H.
Qed.

Lemma classify_sound_alg : forall s l, classify s = Some (CmdAlg l) ->
  l = s /\ full_match COORDINATE_RE s = false /\ full_match ALGEBRAIC_RE s = true.
Proof.
  intros s l H. unfold classify in H.
  destruct (full_match COORDINATE_RE s) eqn:C.
  - destruct s as [|c1 [|c2 [|c3 [|c4 [|c5 s]]]]]; discriminate H.
  - destruct (full_match ALGEBRAIC_RE s) eqn:A; [|discriminate H].
    inversion H. repeat split.
Qed.

Lemma classify_none : forall s, classify s = None ->
  full_match COORDINATE_RE s = false /\ full_match ALGEBRAIC_RE s = false.
Proof.
  intros s H. unfold classify in H.
  destruct (full_match COORDINATE_RE s) eqn:C.
  - destruct (coordinate_re_shape s C) as (c1 & c2 & c3 & c4 & -> & _). discriminate H.
  - destruct (full_match ALGEBRAIC_RE s) eqn:A; [discriminate H|]. split; reflexivity.
Qed.

Theorem parse_input_sound : forall raw a b, parse_input raw = Some (CmdCoord a b) ->
  exists f t, f < 64 /\ t < 64 /\ a = sq_str f /\ b = sq_str t /\ trim raw = a ++ b.
Proof. intros raw a b H. rewrite parse_input_classify in H. apply classify_sound_coord. exact H. Qed.

Theorem parse_input_sound_alg : forall raw l, parse_input raw = Some (CmdAlg l) ->
  l = trim raw /\ full_match COORDINATE_RE (trim raw) = false /\ full_match ALGEBRAIC_RE (trim raw) = true.
Proof. intros raw l H. rewrite parse_input_classify in H. apply classify_sound_alg. exact H. Qed.

(* the parse depends on the trimmed line only, and exactly as the two patterns say *)
Theorem parse_input_coord_iff : forall raw,
  (exists a b, parse_input raw = Some (CmdCoord a b)) <->
  (exists f t, f < 64 /\ t < 64 /\ trim raw = sq_str f ++ sq_str t).
Proof.
  intros raw. split.
  - intros (a & b & H). destruct (parse_input_sound raw a b H) as (f & t & Hf & Ht & -> & -> & E).
    exists f, t. auto.
  - intros (f & t & Hf & Ht & E). exists (sq_str f), (sq_str t).
    rewrite parse_input_classify, E. apply classify_coord; assumption.
Qed.

(* ================================================================================== *)
(** * 3. the line-level C14                                                             *)
(* ================================================================================== *)

Section Pvp.
Variable T : ztable.
Variables rook_t bishop_t : N -> N -> N.
Hypothesis rook_t_ref : forall x o, x < 64 -> rook_t x o = rook_ref x o.
Hypothesis bishop_t_ref : forall x o, x < 64 -> bishop_t x o = bishop_ref x o.

Notation InvC := (InvC rook_t bishop_t).
Notation Inv := (Inv rook_t bishop_t).
Notation gen_moves := (gen_moves T rook_t bishop_t).
Notation apply_by_coords := (apply_by_coords T rook_t bishop_t).
Notation apply_by_notation := (apply_by_notation T rook_t bishop_t).
Notation exec_command := (exec_command T rook_t bishop_t).
Notation pvp_step := (pvp_step T rook_t bishop_t).
Notation pvp_over := (pvp_over T rook_t bishop_t).
Notation pvp_run := (pvp_run T rook_t bishop_t).
Notation game_ending := (game_ending T rook_t bishop_t).
Notation played := (played T rook_t bishop_t).

(* ---- executing a coordinate command ---- *)

Lemma exec_coord : forall g f t, f < 64 -> t < 64 ->
  exec_command (CmdCoord (sq_str f) (sq_str t)) g = apply_by_coords g f t.
Proof.
  intros g f t Hf Ht. unfold Pvp.exec_command, sq_str, ch.
  rewrite (parse_square_sq_str f Hf), (parse_square_sq_str t Ht). reflexivity.
Qed.

Theorem exec_coord_no_panic : forall raw a b g,
  Inv (gboard g) -> Congr.fine 0 (gboard g) ->
  parse_input raw = Some (CmdCoord a b) ->
  exec_command (CmdCoord a b) g <> GPanic
  /\ ((exists m g', exec_command (CmdCoord a b) g = GOk (m, g'))
      \/ exec_command (CmdCoord a b) g = GInvalidMove).
Proof.
  intros raw a b g I F H.
  destruct (parse_input_sound raw a b H) as (f & t & Hf & Ht & -> & -> & _).
  rewrite (exec_coord g f t Hf Ht).
  destruct (C14_coords_ok_or_invalid T rook_t bishop_t rook_t_ref bishop_t_ref g f t I F)
    as [(m & g' & E)|E]; rewrite E.
  - split; [discriminate|]. left. exists m, g'. reflexivity.
  - split; [discriminate|]. right. reflexivity.
Qed.

(* ---- the labels of the legal moves lie in the label space ---- *)

Lemma promo_ok_in : forall pp, promo_ok pp = true -> In pp [Queen; Rook; Bishop; Knight].
Proof. intros pp H. destruct pp; try discriminate H; cbn [In]; auto 6. Qed.

Lemma fits_label_hyps : forall b all m,
  fits b m -> quiet_pawn_unrivalled b all m -> label_hyps b all m.
Proof.
  intros b all m (Hf & Ht & pc & col & ept & Hb & _ & Hm) Hq.
  split; [exact Hf|]. split; [exact Ht|]. split; [|exact Hq].
  intros f t c pp ->. cbn [mv_from] in Hb. destruct Hm as (-> & _ & Hp).
  split; [apply promo_ok_in; exact Hp|exists col; exact Hb].
Qed.

Theorem legal_label_in_space : forall b m,
  Inv b -> Congr.fine 0 b -> In m (legal_moves (abstract b)) ->
  mv_from m < 64 /\ mv_to m < 64 /\ In (legal_label (abstract b) m) all_labels.
Proof.
  intros b m I F Hm.
  destruct (gen_total T rook_t bishop_t rook_t_ref bishop_t_ref b (turn b) I F) as (ms & G & _ & E).
  destruct (generated_list_position_like T rook_t bishop_t b ms b I G) as (Hfit & Hk & Hq & _).
  assert (E' : forall x, In x ms <-> In x (legal_moves (abstract b))).
  { intro x. rewrite legal_moves_abstract. apply E. }
  assert (Hin : In m ms) by (apply E'; exact Hm).
  pose proof (Hfit m Hin) as Hfm.
  split; [apply Hfm|]. split; [apply Hfm|].
  unfold legal_label.
  rewrite <- (spec_label_same_set (abstract b) ms (legal_moves (abstract b)) m _ E').
  apply (san_label_shape b ms m (move_effect (abstract b) (pturn (abstract b)) m)).
  - apply fits_label_hyps; [exact Hfm|apply Hq; exact Hin].
  - apply san_matches_spec; [exact Hfit|exact Hk|exact Hin|apply Hq; exact Hin].
Qed.

(* the typed label of a legal move is read as algebraic notation *)
Corollary legal_label_regex : forall b m,
  Inv b -> Congr.fine 0 b -> In m (legal_moves (abstract b)) ->
  full_match ALGEBRAIC_RE (legal_label (abstract b) m) = true
  /\ full_match COORDINATE_RE (legal_label (abstract b) m) = false.
Proof.
  intros b m I F Hm. apply labels_accepted. apply (legal_label_in_space b m I F Hm).
Qed.

(** no shadowing: the coordinate pattern is tried first, but no label of a legal move is a
    coordinate pair *)
Theorem no_shadowing : forall b m f t,
  Inv b -> Congr.fine 0 b -> In m (legal_moves (abstract b)) -> f < 64 -> t < 64 ->
  legal_label (abstract b) m <> sq_str f ++ sq_str t.
Proof.
  intros b m f t I F Hm Hf Ht E.
  destruct (legal_label_regex b m I F Hm) as [_ C].
  rewrite E, (coordinates_accepted f t Hf Ht) in C. discriminate C.
Qed.

(* ---- what one line does ---- *)

(* the line names the move: by its two squares, or by its FIDE label *)
Definition names (g : game) (raw : string) (m : cmove) : Prop :=
  trim raw = sq_str (mv_from m) ++ sq_str (mv_to m)
  \/ legal_label (abstract (gboard g)) m = trim raw.

(* the state after an accepted line *)
Definition accepted_state (g : game) (m : cmove) (g' : game) : Prop :=
  In m (legal_moves (abstract (gboard g)))
  /\ ghist g' = (ghist g ++ [m])%list
  /\ gdepth g' = gdepth g
  /\ abstract (gboard g') = succ_turn (abstract (gboard g)) m
  /\ Inv (gboard g')
  /\ exists b1, apply_move T m (gboard g) = Ok b1 /\ gboard g' = toggle_turn b1.

Definition step_c14 (g : game) (raw : string) (g' : game) (out : step_out) : Prop :=
  (exists m, out = Played m /\ accepted_state g m g' /\ names g raw m)
  \/ (g' = g /\ (out = Refused \/ out = Unparsed)).

Lemma played_accepted : forall g m g1,
  played g m g1 ->
  accepted_state g m {| gboard := toggle_turn (gboard g1); ghist := ghist g1; gdepth := gdepth g1 |}.
Proof.
  intros g m g1 (Hl & Hh & Hd & Ha & _ & Ht & Hs & Hi).
  unfold accepted_state. cbn [gboard ghist gdepth].
  split; [rewrite legal_moves_abstract; exact Hl|]. split; [exact Hh|]. split; [exact Hd|].
  split; [exact Hs|]. split.
  - unfold InvProofs2.Inv, toggle_turn. cbn [turn set_turn]. rewrite Ht.
    apply InvC_set_turn. exact Hi.
  - exists (gboard g1). split; [exact Ha|reflexivity].
Qed.

(** the line-level C14 *)
Theorem pvp_step_spec : forall g raw g' out,
  Inv (gboard g) -> Congr.fine 1 (gboard g) ->
  pvp_step g raw = (g', out) ->
  out <> Crashed /\ step_c14 g raw g' out.
Proof.
  intros g raw g' out I F1 H.
  pose proof (GenTotal.fine_1_0 _ F1) as F0.
  unfold Pvp.pvp_step in H. destruct (parse_input raw) as [[a b|s]|] eqn:P.
  - (* coordinates *)
    destruct (parse_input_sound raw a b P) as (f & t & Hf & Ht & -> & -> & Etr).
    rewrite (exec_coord g f t Hf Ht) in H.
    destruct (C14_coords_ok_or_invalid T rook_t bishop_t rook_t_ref bishop_t_ref g f t I F0)
      as [(m & g1 & E)|E]; rewrite E in H; inversion H; subst g' out.
    + split; [discriminate|]. left. exists m. split; [reflexivity|].
      destruct (C14_coords_plays_that_move T rook_t bishop_t rook_t_ref bishop_t_ref g f t m g1 I F0 E)
        as (Em & Et & Pl).
      split; [apply played_accepted; exact Pl|]. left. rewrite Em, Et. exact Etr.
    + split; [discriminate|]. right. split; [reflexivity|left; reflexivity].
  - (* notation *)
    destruct (parse_input_sound_alg raw s P) as (-> & _ & _).
    cbn [Pvp.exec_command] in H.
    destruct (C14_notation_ok_or_invalid T rook_t bishop_t rook_t_ref bishop_t_ref g (trim raw) I F1)
      as [(m & g1 & E)|E]; rewrite E in H; inversion H; subst g' out.
    + split; [discriminate|]. left. exists m. split; [reflexivity|].
      destruct (C14_notation_plays_that_move T rook_t bishop_t rook_t_ref bishop_t_ref g (trim raw) m g1 I F1 E)
        as (El & _ & Pl).
      split; [apply played_accepted; exact Pl|]. right. exact El.
    + split; [discriminate|]. right. split; [reflexivity|left; reflexivity].
  - inversion H; subst g' out. split; [discriminate|]. right. split; [reflexivity|right; reflexivity].
Qed.

(** accepted exactly when the trimmed line names a legal move *)
Theorem pvp_step_accepts_iff : forall g raw,
  Inv (gboard g) -> Congr.fine 1 (gboard g) ->
  ((exists m, snd (pvp_step g raw) = Played m) <->
   (exists m, In m (legal_moves (abstract (gboard g))) /\ names g raw m)).
Proof.
  intros g raw I F1. pose proof (GenTotal.fine_1_0 _ F1) as F0. split.
  - intros (m & H). destruct (pvp_step g raw) as [g' out] eqn:S. cbn [snd] in H. subst out.
    destruct (pvp_step_spec g raw g' (Played m) I F1 S) as [_ [(m' & Em & Acc & Nm)|(_ & [X|X])]];
      try discriminate X.
    inversion Em; subst m'. exists m. split; [apply Acc|exact Nm].
  - intros (m & Hl & [Nm|Nm]).
    + destruct (legal_label_in_space (gboard g) m I F0 Hl) as (Hf & Ht & _).
      unfold Pvp.pvp_step. rewrite parse_input_classify, Nm, (classify_coord _ _ Hf Ht), (exec_coord g _ _ Hf Ht).
      assert (A : exists m0 g0, apply_by_coords g (mv_from m) (mv_to m) = GOk (m0, g0)).
      { apply (C14_coords_accepted_iff_legal T rook_t bishop_t rook_t_ref bishop_t_ref g _ _ I F0).
        exists m. rewrite <- legal_moves_abstract. auto. }
      destruct A as (m0 & g0 & A). rewrite A. exists m0. reflexivity.
    + destruct (legal_label_in_space (gboard g) m I F0 Hl) as (_ & _ & Hs).
      unfold Pvp.pvp_step. rewrite parse_input_classify, <- Nm, (classify_label _ Hs).
      cbn [Pvp.exec_command].
      assert (A : exists m0 g0, apply_by_notation g (legal_label (abstract (gboard g)) m) = GOk (m0, g0)).
      { apply (C14_notation_accepted_iff_label T rook_t bishop_t rook_t_ref bishop_t_ref g _ I F1).
        exists m. rewrite <- legal_moves_abstract. auto. }
      destruct A as (m0 & g0 & A). rewrite A. exists m0. reflexivity.
Qed.

(** the accepted line plays precisely the move it names *)
Theorem pvp_step_plays_coords : forall g raw g' m f t,
  Inv (gboard g) -> Congr.fine 1 (gboard g) -> f < 64 -> t < 64 ->
  pvp_step g raw = (g', Played m) -> trim raw = sq_str f ++ sq_str t ->
  mv_from m = f /\ mv_to m = t.
Proof.
  intros g raw g' m f t I F1 Hf Ht S E. pose proof (GenTotal.fine_1_0 _ F1) as F0.
  unfold Pvp.pvp_step in S. rewrite parse_input_classify, E, (classify_coord f t Hf Ht), (exec_coord g f t Hf Ht) in S.
  destruct (C14_coords_ok_or_invalid T rook_t bishop_t rook_t_ref bishop_t_ref g f t I F0)
    as [(m0 & g0 & A)|A]; rewrite A in S; inversion S; subst.
  destruct (C14_coords_plays_that_move T rook_t bishop_t rook_t_ref bishop_t_ref g f t m g0 I F0 A)
    as (Em & Et & _). split; assumption.
Qed.

(* a pair of squares that names a promotion plays the queen promotion *)
Theorem pvp_step_promotion_queen : forall g raw f t cap pp,
  Inv (gboard g) -> Congr.fine 1 (gboard g) ->
  In (Promo f t cap pp) (legal_moves (abstract (gboard g))) ->
  trim raw = sq_str f ++ sq_str t ->
  snd (pvp_step g raw) = Played (Promo f t cap Queen).
Proof.
  intros g raw f t cap pp I F1 Hl E. pose proof (GenTotal.fine_1_0 _ F1) as F0.
  destruct (legal_label_in_space (gboard g) _ I F0 Hl) as (Hf & Ht & _). cbn [mv_from mv_to] in Hf, Ht.
  rewrite legal_moves_abstract in Hl.
  destruct (C14_coords_promotion_plays_queen T rook_t bishop_t rook_t_ref bishop_t_ref g f t cap pp I F0 Hl)
    as (g0 & A & _).
  unfold Pvp.pvp_step. rewrite parse_input_classify, E, (classify_coord f t Hf Ht), (exec_coord g f t Hf Ht), A.
  reflexivity.
Qed.

Theorem pvp_step_plays_label : forall g raw m,
  Inv (gboard g) -> Congr.fine 1 (gboard g) ->
  In m (legal_moves (abstract (gboard g))) -> legal_label (abstract (gboard g)) m = trim raw ->
  snd (pvp_step g raw) = Played m.
Proof.
  intros g raw m I F1 Hl E. pose proof (GenTotal.fine_1_0 _ F1) as F0.
  destruct (legal_label_in_space (gboard g) m I F0 Hl) as (_ & _ & Hs).
  unfold Pvp.pvp_step. rewrite parse_input_classify, <- E, (classify_label _ Hs).
  cbn [Pvp.exec_command].
  assert (A : exists m0 g0, apply_by_notation g (legal_label (abstract (gboard g)) m) = GOk (m0, g0)).
  { apply (C14_notation_accepted_iff_label T rook_t bishop_t rook_t_ref bishop_t_ref g _ I F1).
    exists m. rewrite <- legal_moves_abstract. auto. }
  destruct A as (m0 & g0 & A). rewrite A. cbn [snd].
  destruct (C14_notation_plays_that_move T rook_t bishop_t rook_t_ref bishop_t_ref g _ m0 g0 I F1 A)
    as (_ & U & _).
  rewrite <- legal_moves_abstract in U. rewrite (U m Hl eq_refl). reflexivity.
Qed.

(** the two kinds of rejection *)
Theorem pvp_step_unparsed_iff : forall g raw,
  Inv (gboard g) -> Congr.fine 1 (gboard g) ->
  (snd (pvp_step g raw) = Unparsed <->
   full_match COORDINATE_RE (trim raw) = false /\ full_match ALGEBRAIC_RE (trim raw) = false).
Proof.
  intros g raw I F1. split.
  - intro H. destruct (pvp_step g raw) as [g' out] eqn:S. cbn [snd] in H. subst out.
    unfold Pvp.pvp_step in S. destruct (parse_input raw) as [c|] eqn:P.
    + destruct (exec_command c g) as [[m g1]| | | |]; inversion S.
    + rewrite parse_input_classify in P. apply classify_none. exact P.
  - intros [C A]. unfold Pvp.pvp_step, parse_input. cbv zeta. rewrite C, A. reflexivity.
Qed.

Theorem pvp_step_refused_iff : forall g raw,
  Inv (gboard g) -> Congr.fine 1 (gboard g) ->
  (snd (pvp_step g raw) = Refused <->
   (full_match COORDINATE_RE (trim raw) = true \/ full_match ALGEBRAIC_RE (trim raw) = true)
   /\ ~ exists m, In m (legal_moves (abstract (gboard g))) /\ names g raw m).
Proof.
  intros g raw I F1.
  pose proof (pvp_step_accepts_iff g raw I F1) as A.
  pose proof (pvp_step_unparsed_iff g raw I F1) as U.
  destruct (pvp_step g raw) as [g' out] eqn:S. cbn [snd] in *.
  destruct (pvp_step_spec g raw g' out I F1 S) as [NC _].
  split.
  - intro E. subst out. split.
    + destruct (full_match COORDINATE_RE (trim raw)); [left; reflexivity|].
      destruct (full_match ALGEBRAIC_RE (trim raw)); [right; reflexivity|].
      destruct U as [_ U]. specialize (U (conj eq_refl eq_refl)). discriminate U.
    + intro L. apply A in L. destruct L as [m L]. discriminate L.
  - intros [M NL]. destruct out as [m| | |].
    + exfalso. apply NL. apply A. exists m. reflexivity.
    + reflexivity.
    + destruct U as [U _]. destruct (U eq_refl) as [C Al]. rewrite C, Al in M. destruct M; discriminate.
    + exfalso. apply NC. reflexivity.
Qed.

(* a rejected line leaves the game exactly as it was *)
Corollary pvp_step_rejected_unchanged : forall g raw g' out,
  Inv (gboard g) -> Congr.fine 1 (gboard g) ->
  pvp_step g raw = (g', out) -> (forall m, out <> Played m) -> g' = g.
Proof.
  intros g raw g' out I F1 S N.
  destruct (pvp_step_spec g raw g' out I F1 S) as [_ [(m & E & _)|(E & _)]]; [|exact E].
  exfalso. exact (N m E).
Qed.

(* ================================================================================== *)
(** * 4. the session                                                                    *)
(* ================================================================================== *)

(* consecutive states of a session, related through the lines typed *)
Inductive chain (R : game -> string -> game -> Prop) : list game -> list string -> Prop :=
| chain_one : forall g ins, chain R [g] ins
| chain_cons : forall g g' gs raw rest,
    R g raw g' -> chain R (g' :: gs) rest -> chain R (g :: g' :: gs) (raw :: rest).

(* one pass through the loop body: the model's step, which did not crash and is a C14 step *)
Definition step_ok (g : game) (raw : string) (g' : game) : Prop :=
  exists out, pvp_step g raw = (g', out) /\ out <> Crashed /\ step_c14 g raw g' out.

Definition session_ok : list game -> list string -> Prop := chain step_ok.

(* the verdict e on state g is the rules': a count-based draw is in force and e = Draw, or none
   is and e is checkmate / stalemate of the side to move by the rules *)
Definition ending_is (g : game) (e : option ending) : Prop :=
  let b := gboard g in
  (e = Some Draw
   /\ (top (seen_stack b) = REPETITION_DRAW_COUNT \/ HALFMOVE_DRAW_THRESHOLD <= top (hm_stack b)))
  \/ (top (seen_stack b) <> REPETITION_DRAW_COUNT /\ top (hm_stack b) < HALFMOVE_DRAW_THRESHOLD
      /\ e = (if is_checkmate (abstract b) (turn b) then Some Checkmate
              else if is_stalemate (abstract b) (turn b) then Some Stalemate
              else None)).

(* the counters are in range for n more lines *)
Definition in_range (g : game) (n : nat) : Prop :=
  hm_stack (gboard g) <> [] /\ hd 0 (hm_stack (gboard g)) <= 100
  /\ fullmove (gboard g) + N.of_nat n < FULLMOVE_MAX.

Lemma pvp_over_exact : forall g,
  Inv (gboard g) -> in_range g 0 ->
  exists e, pvp_over g = Ok e /\ ending_is g e.
Proof.
  intros g I (Hn & Hh & Hf).
  assert (F0 : Congr.fine 0 (gboard g)).
  { unfold Congr.fine. split; [exact Hn|]. unfold U8_MAX. change (N.of_nat 0) with 0 in Hf. split; lia. }
  pose proof (GenTotal.InvC_seen_nonempty rook_t bishop_t _ _ I) as Hs.
  destruct (GenTotal.game_ending_total T rook_t bishop_t (gboard g) (turn (gboard g)) I F0 Hs) as [e G].
  exists e. split; [unfold Pvp.pvp_over; rewrite G; reflexivity|].
  unfold ending_is. cbv zeta.
  destruct (N.eq_dec (top (seen_stack (gboard g))) REPETITION_DRAW_COUNT) as [Es|Ns].
  - left. rewrite (game_ending_draws T rook_t bishop_t (gboard g) _ Hs Hn (or_introl Es)) in G.
    inversion G. split; [reflexivity|left; exact Es].
  - destruct (N.le_gt_cases HALFMOVE_DRAW_THRESHOLD (top (hm_stack (gboard g)))) as [L|L].
    + left. rewrite (game_ending_draws T rook_t bishop_t (gboard g) _ Hs Hn (or_intror L)) in G.
      inversion G. split; [reflexivity|right; exact L].
    + right. split; [exact Ns|]. split; [exact L|].
      apply (game_ending_exact T rook_t bishop_t rook_t_ref bishop_t_ref (gboard g) e (gboard g) I Ns L G).
Qed.

(* the loop goes on only below the half-move threshold *)
Lemma ending_none_clock : forall g, ending_is g None -> top (hm_stack (gboard g)) < 100.
Proof.
  intros g [[E _]|(_ & L & _)]; [discriminate E|].
  rewrite HALFMOVE_DRAW_THRESHOLD_is_100 in L. exact L.
Qed.

Lemma step_in_range : forall g raw g' out n,
  in_range g (S n) -> top (hm_stack (gboard g)) < 100 ->
  step_c14 g raw g' out -> in_range g' n.
Proof.
  intros g raw g' out n (Hn & Hh & Hf) Hc [(m & _ & Acc & _)|(-> & _)].
  - destruct Acc as (_ & _ & _ & _ & _ & b1 & A & Eb).
    destruct (apply_clocks T m (gboard g) b1 A) as [Ef Eh].
    unfold in_range. rewrite Eb. cbn [toggle_turn set_turn hm_stack fullmove].
    change (hm_stack (set_turn b1 (opp_c (turn b1)))) with (hm_stack b1).
    change (fullmove (set_turn b1 (opp_c (turn b1)))) with (fullmove b1).
    rewrite Eh, Ef. cbn [hd]. split; [discriminate|]. split.
    + destruct (resets (gboard g) m); lia.
    + rewrite Nat2N.inj_succ in Hf. lia.
  - unfold in_range. split; [exact Hn|]. split; [exact Hh|]. rewrite Nat2N.inj_succ in Hf. lia.
Qed.

Lemma in_range_fine1 : forall g n,
  in_range g (S n) -> top (hm_stack (gboard g)) < 100 -> Congr.fine 1 (gboard g).
Proof.
  intros g n (Hn & _ & Hf) Hc. unfold Congr.fine, U8_MAX. unfold top in Hc.
  rewrite Nat2N.inj_succ in Hf. split; [exact Hn|]. split; lia.
Qed.

Lemma in_range_0 : forall g n, in_range g n -> in_range g 0.
Proof.
  intros g n (Hn & Hh & Hf). split; [exact Hn|]. split; [exact Hh|].
  change (N.of_nat 0) with 0. lia.
Qed.

Lemma last_default : forall (l : list game) d d', l <> [] -> last l d = last l d'.
Proof.
  induction l as [|a l IH]; intros d d' H; [contradiction|].
  destruct l as [|b l]; [reflexivity|]. cbn [last]. apply IH. discriminate.
Qed.

(** the session invariant *)
Theorem pvp_run_inv : forall inputs g gs r,
  Inv (gboard g) ->
  hm_stack (gboard g) <> [] -> hd 0 (hm_stack (gboard g)) <= 100 ->
  fullmove (gboard g) + N.of_nat (length inputs) < FULLMOVE_MAX ->
  pvp_run g inputs = (gs, r) ->
  r <> Panic
  /\ (exists v, r = Ok v /\ ending_is (last gs g) v
                /\ (v = None -> length gs = S (length inputs)))
  /\ (exists tl, gs = g :: tl)
  /\ (length gs <= S (length inputs))%nat
  /\ Forall (fun x => Inv (gboard x)) gs
  /\ session_ok gs inputs.
Proof.
  induction inputs as [|raw rest IH]; intros g gs r I Hn Hh Hf H.
  - assert (R0 : in_range g 0) by (split; [exact Hn|split; [exact Hh|exact Hf]]).
    destruct (pvp_over_exact g I R0) as (e & Eo & Ee).
    cbn [Pvp.pvp_run] in H. rewrite Eo in H.
    assert (X : gs = [g] /\ r = Ok e) by (destruct e; inversion H; auto).
    destruct X as [-> ->]. cbn [last length].
    split; [discriminate|]. split; [exists e; auto|]. split; [exists []; reflexivity|].
    split; [lia|]. split; [constructor; [exact I|constructor]|constructor].
  - assert (Rn : in_range g (S (length rest))) by (split; [exact Hn|split; [exact Hh|exact Hf]]).
    destruct (pvp_over_exact g I (in_range_0 _ _ Rn)) as (e & Eo & Ee).
    cbn [Pvp.pvp_run] in H. rewrite Eo in H.
    destruct e as [e|].
    + inversion H; subst gs r. cbn [last length].
      split; [discriminate|]. split; [exists (Some e); split; [reflexivity|split; [exact Ee|discriminate]]|].
      split; [exists []; reflexivity|]. split; [lia|].
      split; [constructor; [exact I|constructor]|constructor].
    + pose proof (ending_none_clock g Ee) as Hc.
      pose proof (in_range_fine1 g _ Rn Hc) as F1.
      destruct (pvp_step g raw) as [g' out] eqn:S.
      destruct (pvp_step_spec g raw g' out I F1 S) as [NC C14].
      pose proof (step_in_range g raw g' out _ Rn Hc C14) as (Hn' & Hh' & Hf').
      assert (I' : Inv (gboard g')).
      { destruct C14 as [(m & _ & Acc & _)|(-> & _)]; [apply Acc|exact I]. }
      destruct (pvp_run g' rest) as [gs' r'] eqn:Rn'.
      assert (X : gs = g :: gs' /\ r = r').
      { destruct out; inversion H; auto. exfalso. apply NC. reflexivity. }
      destruct X as [-> ->].
      destruct (IH g' gs' r' I' Hn' Hh' Hf' Rn') as (NP & (v & Ev & Eend & Elen) & (tl & ->) & Hlen & FI & SO).
      split; [exact NP|]. split.
      * exists v. split; [exact Ev|]. split.
        -- change (last (g :: g' :: tl) g) with (last (g' :: tl) g).
           rewrite (last_default (g' :: tl) g g'); [exact Eend|discriminate].
        -- intro Ev'. cbn [length] in *. rewrite (Elen Ev'). reflexivity.
      * split; [exists (g' :: tl); reflexivity|]. split; [cbn [length] in *; lia|].
        split; [constructor; [exact I|exact FI]|].
        apply chain_cons; [|exact SO]. exists out. auto.
Qed.

(* the clauses of the invariant one reads most often, separately *)
Corollary pvp_run_never_panics : forall inputs g,
  Inv (gboard g) ->
  hm_stack (gboard g) <> [] -> hd 0 (hm_stack (gboard g)) <= 100 ->
  fullmove (gboard g) + N.of_nat (length inputs) < FULLMOVE_MAX ->
  snd (pvp_run g inputs) <> Panic.
Proof.
  intros inputs g I Hn Hh Hf. destruct (pvp_run g inputs) as [gs r] eqn:E.
  apply (pvp_run_inv inputs g gs r I Hn Hh Hf E).
Qed.

Corollary pvp_run_verdict_exact : forall inputs g gs e,
  Inv (gboard g) ->
  hm_stack (gboard g) <> [] -> hd 0 (hm_stack (gboard g)) <= 100 ->
  fullmove (gboard g) + N.of_nat (length inputs) < FULLMOVE_MAX ->
  pvp_run g inputs = (gs, Ok (Some e)) ->
  ending_is (last gs g) (Some e).
Proof.
  intros inputs g gs e I Hn Hh Hf E.
  destruct (pvp_run_inv inputs g gs _ I Hn Hh Hf E) as (_ & (v & Ev & Eend & _) & _).
  inversion Ev; subst v. exact Eend.
Qed.

End Pvp.

(* ================================================================================== *)
(** * 5. non-vacuity                                                                    *)
(* ================================================================================== *)

Definition pvp_start : game := {| gboard := UndoProofs.start_b; ghist := []; gdepth := 0 |}.

(* the hypotheses of pvp_run_inv hold of the standard starting game *)
Example pvp_start_hyps :
  InvProofs2.Inv rook_ref bishop_ref (gboard pvp_start)
  /\ hm_stack (gboard pvp_start) <> [] /\ hd 0 (hm_stack (gboard pvp_start)) <= 100
  /\ fullmove (gboard pvp_start) + N.of_nat 5 < FULLMOVE_MAX.
Proof.
  split; [apply invb_spec; vm_compute; reflexivity|].
  split; [vm_compute; discriminate|].
  split; vm_compute; [discriminate|reflexivity].
Qed.

(* fool's mate, typed: a pawn label, a coordinate pair, a line that is not a move, a pawn label,
   a piece label with the mate sign.  Six states are shown (the rejected line shows the same
   state again), and the loop stops on checkmate *)
Example pvp_fools_mate :
  let (gs, r) := pvp_run example_table rook_ref bishop_ref pvp_start
                         ["f3"; "e7e5"; "zz"; "g4"; "Qh4#"] in
  (length gs, r, map (fun g => length (ghist g)) gs)
  = (6%nat, Ok (Some Checkmate), [0; 1; 2; 2; 3; 4]%nat).
Proof. vm_compute. reflexivity. Qed.

Example pvp_lines_classified :
  parse_input "  e7e5 " = Some (CmdCoord "e7" "e5")
  /\ parse_input "Qh4#" = Some (CmdAlg "Qh4#")
  /\ parse_input "zz" = None
  /\ snd (pvp_step example_table rook_ref bishop_ref pvp_start "e2e5") = Refused
  /\ snd (pvp_step example_table rook_ref bishop_ref pvp_start "zz") = Unparsed
  /\ snd (pvp_step example_table rook_ref bishop_ref pvp_start " e2e4") = Played (Std 12 28 None)
  /\ snd (pvp_step example_table rook_ref bishop_ref pvp_start "Nf3 ") = Played (Std 6 21 None).
Proof. vm_compute. repeat split; reflexivity. Qed.

Print Assumptions trim_id.
Print Assumptions parse_coord_line.
Print Assumptions parse_label_line.
Print Assumptions parse_input_sound.
Print Assumptions coordinate_re_iff.
Print Assumptions exec_coord_no_panic.
Print Assumptions legal_label_in_space.
Print Assumptions no_shadowing.
Print Assumptions pvp_step_spec.
Print Assumptions pvp_step_accepts_iff.
Print Assumptions pvp_step_plays_coords.
Print Assumptions pvp_step_promotion_queen.
Print Assumptions pvp_step_plays_label.
Print Assumptions pvp_step_unparsed_iff.
Print Assumptions pvp_step_refused_iff.
Print Assumptions pvp_step_rejected_unchanged.
Print Assumptions pvp_run_inv.
Print Assumptions pvp_run_never_panics.
Print Assumptions pvp_run_verdict_exact.
Print Assumptions pvp_start_hyps.
Print Assumptions pvp_fools_mate.
Print Assumptions pvp_lines_classified.
