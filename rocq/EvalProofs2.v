(* EvalProofs2.v — C18, part 2: the static score is bounded for any legal material
   (one king; pawns + promoted surplus <= 8, which allows nine queens), never overflows
   i16, and is strictly dominated by every mate score WHITE_WINS + d / BLACK_WINS - d,
   d <= 255; the mate-score arithmetic itself does not overflow; stalemate scores 0;
   mate scores are strictly monotone in the remaining depth.

   The numeric bounds are derived from the generated tables by vm_compute (max / min of
   value+bonus per piece and phase over both colours and all 64 squares) — no table
   value is quoted. *)
From ChessV Require Import Eval EvalProofs1.
From Coq Require Import Lia ZArith NArith List Bool.
Import ListNotations.
Arguments N.add : simpl never.
Arguments N.sub : simpl never.
Arguments N.mul : simpl never.
Arguments N.eqb : simpl never.
Arguments N.ltb : simpl never.
Arguments N.leb : simpl never.
Arguments N.testbit : simpl never.
Open Scope N_scope.

(* ------------------------------------------------------------------------- *)
(** * Legal material *)

(* exactly one king, and pawns + (knights-2)+ + (bishops-2)+ + (rooks-2)+ + (queens-1)+ <= 8
   (N subtraction is truncated, i.e. it is the positive part) *)
Definition legal_material (s : pset) : Prop :=
  popcount (kg s) = 1 /\
  popcount (pw s) + (popcount (kn s) - 2) + (popcount (bi s) - 2) + (popcount (rk s) - 2)
    + (popcount (qn s) - 1) <= 8.

Definition legal_materialb (s : pset) : bool :=
  (popcount (kg s) =? 1) &&
  (popcount (pw s) + (popcount (kn s) - 2) + (popcount (bi s) - 2) + (popcount (rk s) - 2)
    + (popcount (qn s) - 1) <=? 8).

Lemma legal_materialb_spec : forall s, legal_materialb s = true <-> legal_material s.
Proof.
  intro s. unfold legal_materialb, legal_material.
  rewrite andb_true_iff, N.eqb_eq, N.leb_le. reflexivity.
Qed.

Lemma legal_material_flip : forall s, legal_material (flip_pset s) <-> legal_material s.
Proof.
  intro s. unfold legal_material, flip_pset; cbn [pw kn bi rk qn kg].
  rewrite !popcount_flip_bb. reflexivity.
Qed.

(* ------------------------------------------------------------------------- *)
(** * Extremes of value + bonus per piece and phase, computed from the tables *)

Definition hiA (eg : bool) (p : piece) : Z :=
  fold_right (fun i m => Z.max (Z.max (addend eg White p i) (addend eg Black p i)) m) 0%Z squares.
Definition loA (eg : bool) (p : piece) : Z :=
  fold_right (fun i m => Z.min (Z.min (addend eg White p i) (addend eg Black p i)) m)
             (addend eg White p 0) squares.

Lemma EvalAux_le_foldmax : forall (f : N -> Z) d l i,
  In i l -> (f i <= fold_right (fun j m => Z.max (f j) m) d l)%Z.
Proof.
  intros f d l i. induction l as [|a l IH]; intro H; cbn [fold_right]; [destruct H|].
  destruct H as [H|H]; [subst a; lia | specialize (IH H); lia].
Qed.

Lemma EvalAux_foldmin_le : forall (f : N -> Z) d l i,
  In i l -> (fold_right (fun j m => Z.min (f j) m) d l <= f i)%Z.
Proof.
  intros f d l i. induction l as [|a l IH]; intro H; cbn [fold_right]; [destruct H|].
  destruct H as [H|H]; [subst a; lia | specialize (IH H); lia].
Qed.

Lemma addend_le_hiA : forall eg c p i, i < 64 -> (addend eg c p i <= hiA eg p)%Z.
Proof.
  intros eg c p i Hi. apply EvalAux_in_squares in Hi.
  pose proof (EvalAux_le_foldmax
    (fun j => Z.max (addend eg White p j) (addend eg Black p j)) 0%Z squares i Hi) as H.
  cbv beta in H. unfold hiA. destruct c; lia.
Qed.

Lemma loA_le_addend : forall eg c p i, i < 64 -> (loA eg p <= addend eg c p i)%Z.
Proof.
  intros eg c p i Hi. apply EvalAux_in_squares in Hi.
  pose proof (EvalAux_foldmin_le
    (fun j => Z.min (addend eg White p j) (addend eg Black p j)) (addend eg White p 0) squares i Hi) as H.
  cbv beta in H. unfold loA. destruct c; lia.
Qed.

(* ------------------------------------------------------------------------- *)
(** * Counting: a side's sum lies between  sum_p count_p * lo_p  and  sum_p count_p * hi_p *)

Definition cnt (s : pset) (p : piece) : Z := Z.of_N (popcount (locate s p)).

Lemma piece_sum_bounds : forall s eg c p,
  (cnt s p * loA eg p <= sumL (term s eg c p) squares <= cnt s p * hiA eg p)%Z.
Proof.
  intros s eg c p. unfold cnt. rewrite popcount_sum.
  change (term s eg c p) with (fun i => if mem i (locate s p) then addend eg c p i else 0%Z).
  apply (sumL_cond_bounds (fun i => mem i (locate s p)) (addend eg c p)).
  intros i Hi. apply EvalAux_in_squares in Hi.
  split; [apply loA_le_addend | apply addend_le_hiA]; exact Hi.
Qed.

Lemma matZ_gen_bounds : forall s eg c,
  (sumL (fun p => cnt s p * loA eg p) canon_pieces
     <= matZ_gen s eg c
     <= sumL (fun p => cnt s p * hiA eg p) canon_pieces)%Z.
Proof.
  intros s eg c. unfold matZ_gen, canon_pieces. cbn [sumL].
  pose proof (piece_sum_bounds s eg c Pawn). pose proof (piece_sum_bounds s eg c Knight).
  pose proof (piece_sum_bounds s eg c Bishop). pose proof (piece_sum_bounds s eg c Rook).
  pose proof (piece_sum_bounds s eg c Queen). pose proof (piece_sum_bounds s eg c King).
  lia.
Qed.

(* worst case for one side with legal material: the king, the original two knights,
   bishops, rooks and the queen at their best squares, and eight further men each worth
   the most valuable promotable piece at its best square *)
Definition max_surplus (eg : bool) : Z :=
  Z.max (hiA eg Pawn) (Z.max (hiA eg Knight) (Z.max (hiA eg Bishop) (Z.max (hiA eg Rook) (hiA eg Queen)))).
Definition side_hi (eg : bool) : Z :=
  (hiA eg King + 2 * hiA eg Knight + 2 * hiA eg Bishop + 2 * hiA eg Rook + hiA eg Queen
   + 8 * max_surplus eg)%Z.
Definition side_lo (eg : bool) : Z := loA eg King.

(* replace a closed table-derived constant by its value: the equation is checked by the
   VM, and it is used by rewriting (a `change` here makes the kernel re-convert whole
   hypotheses containing symbolic popcounts) *)
Ltac EvalAux_ev t :=
  let v := eval vm_compute in t in
  let E := fresh "E" in
  assert (E : t = v) by (vm_compute; reflexivity);
  rewrite ?E in *; clear E.
Ltac EvalAux_ev_all eg :=
  EvalAux_ev (hiA eg Pawn); EvalAux_ev (hiA eg Knight); EvalAux_ev (hiA eg Bishop);
  EvalAux_ev (hiA eg Rook); EvalAux_ev (hiA eg Queen); EvalAux_ev (hiA eg King);
  EvalAux_ev (loA eg Pawn); EvalAux_ev (loA eg Knight); EvalAux_ev (loA eg Bishop);
  EvalAux_ev (loA eg Rook); EvalAux_ev (loA eg Queen); EvalAux_ev (loA eg King).

(* pure arithmetic: the counting argument on abstract counts, with the per-piece extremes
   replaced by their computed values *)
Lemma EvalAux_side_arith : forall eg (m : Z) (nP nN nB nR nQ nK : N),
  nK = 1 -> nP + (nN - 2) + (nB - 2) + (nR - 2) + (nQ - 1) <= 8 ->
  (Z.of_N nP * loA eg Pawn + (Z.of_N nN * loA eg Knight + (Z.of_N nB * loA eg Bishop +
    (Z.of_N nR * loA eg Rook + (Z.of_N nQ * loA eg Queen + (Z.of_N nK * loA eg King + 0)))))
   <= m <=
   Z.of_N nP * hiA eg Pawn + (Z.of_N nN * hiA eg Knight + (Z.of_N nB * hiA eg Bishop +
    (Z.of_N nR * hiA eg Rook + (Z.of_N nQ * hiA eg Queen + (Z.of_N nK * hiA eg King + 0))))))%Z ->
  (side_lo eg <= m <= side_hi eg)%Z.
Proof.
  intros eg m nP nN nB nR nQ nK HK Hsum H. unfold side_lo, side_hi, max_surplus.
  destruct eg.
  - EvalAux_ev_all true. lia.
  - EvalAux_ev_all false. lia.
Qed.

(* CAUTION: hypotheses mentioning a symbolic [popcount] inside Z arithmetic must only be
   transformed by [rewrite] with these equations, never by unfold/cbn/change (the kernel's
   re-check of such a conversion evaluates the 64-fold filter symbolically and diverges) *)
Lemma EvalAux_canon_eq : canon_pieces = [Pawn; Knight; Bishop; Rook; Queen; King].
Proof. reflexivity. Qed.
Lemma EvalAux_sumL_cons : forall {A} (f : A -> Z) a l, sumL f (a :: l) = (f a + sumL f l)%Z.
Proof. reflexivity. Qed.
Lemma EvalAux_sumL_nil : forall {A} (f : A -> Z), sumL f [] = 0%Z.
Proof. reflexivity. Qed.
Lemma EvalAux_cnt_eq : forall s,
  cnt s Pawn = Z.of_N (popcount (pw s)) /\ cnt s Knight = Z.of_N (popcount (kn s)) /\
  cnt s Bishop = Z.of_N (popcount (bi s)) /\ cnt s Rook = Z.of_N (popcount (rk s)) /\
  cnt s Queen = Z.of_N (popcount (qn s)) /\ cnt s King = Z.of_N (popcount (kg s)).
Proof. intro s. repeat split; reflexivity. Qed.

Lemma side_bounds : forall s eg c, legal_material s ->
  (side_lo eg <= matZ_gen s eg c <= side_hi eg)%Z.
Proof.
  intros s eg c [HK Hsum].
  apply (EvalAux_side_arith eg _ _ _ _ _ _ _ HK Hsum).
  destruct (EvalAux_cnt_eq s) as [E1 [E2 [E3 [E4 [E5 E6]]]]].
  rewrite <- E1, <- E2, <- E3, <- E4, <- E5, <- E6.
  pose proof (matZ_gen_bounds s eg c) as H.
  rewrite EvalAux_canon_eq in H. rewrite !EvalAux_sumL_cons, !EvalAux_sumL_nil in H.
  exact H.
Qed.

(* the three numeric facts the bound rests on, checked on the generated tables *)
Definition EvalAux_bound_check : bool :=
  forallb (fun eg =>
    (0 <=? side_lo eg)%Z && (side_hi eg <=? 32767)%Z
    && (side_hi eg - side_lo eg <? Z.abs WHITE_WINS - 255)%Z
    && (side_hi eg - side_lo eg <? Z.abs BLACK_WINS - 255)%Z) [false; true].

Lemma EvalAux_bound_sweep : EvalAux_bound_check = true.
Proof. vm_compute. reflexivity. Qed.

Lemma side_numeric : forall eg,
  (0 <= side_lo eg)%Z /\ (side_hi eg <= 32767)%Z
  /\ (side_hi eg - side_lo eg < Z.abs WHITE_WINS - 255)%Z
  /\ (side_hi eg - side_lo eg < Z.abs BLACK_WINS - 255)%Z.
Proof.
  intro eg. pose proof EvalAux_bound_sweep as H. unfold EvalAux_bound_check in H.
  rewrite forallb_forall in H.
  assert (He : In eg [false; true]) by (destruct eg; cbn [In]; auto).
  specialize (H eg He). cbv beta in H.
  apply andb_true_iff in H. destruct H as [H H4].
  apply andb_true_iff in H. destruct H as [H H3].
  apply andb_true_iff in H. destruct H as [H1 H2].
  apply Z.leb_le in H1, H2. apply Z.ltb_lt in H3, H4. repeat split; assumption.
Qed.

(* ------------------------------------------------------------------------- *)
(** * 5. The static score is defined, overflow-free and below every mate score *)

(* one side: the checked i16 loop succeeds *)
Theorem player_material_legal : forall b c, legal_material (pieces b c) ->
  player_material b c = Ok (matZ b c) /\ (0 <= matZ b c <= 32767)%Z.
Proof.
  intros b c Hl. pose proof (side_bounds (pieces b c) (is_endgame b) c Hl) as H.
  fold (matZ b c) in H. pose proof (side_numeric (is_endgame b)) as [N1 [N2 _]].
  split; [apply player_material_complete; lia | lia].
Qed.

Theorem eval_bounded : forall b, legal_material (white b) -> legal_material (black b) ->
  exists s, material_score b = Ok s
    /\ (Z.abs s < Z.abs WHITE_WINS - 255)%Z /\ (Z.abs s < Z.abs BLACK_WINS - 255)%Z.
Proof.
  intros b Hw Hk.
  pose proof (side_bounds (pieces b White) (is_endgame b) White Hw) as Bw.
  pose proof (side_bounds (pieces b Black) (is_endgame b) Black Hk) as Bk.
  fold (matZ b White) in Bw. fold (matZ b Black) in Bk.
  pose proof (side_numeric (is_endgame b)) as [N1 [N2 [N3 N4]]].
  exists (matZ b White - matZ b Black)%Z. split; [|lia].
  unfold material_score.
  rewrite (player_material_complete b White) by lia.
  rewrite (player_material_complete b Black) by lia.
  cbn [bind]. unfold sub16. rewrite in_i16_true by lia. reflexivity.
Qed.

(* the mate-score arithmetic of `score` does not overflow for any u8 remaining depth *)
Theorem mate_scores_no_overflow : forall d, d <= 255 ->
  sub16 BLACK_WINS (Z.of_N d) = Ok (BLACK_WINS - Z.of_N d)%Z
  /\ add16 WHITE_WINS (Z.of_N d) = Ok (WHITE_WINS + Z.of_N d)%Z.
Proof.
  intros d Hd. split.
  - unfold sub16. rewrite in_i16_true by (unfold BLACK_WINS; lia). reflexivity.
  - unfold add16. rewrite in_i16_true by (unfold WHITE_WINS; lia). reflexivity.
Qed.

(* strict domination: for every remaining depth d <= 255 the static score lies strictly
   between "White is mated" (BLACK_WINS - d) and "Black is mated" (WHITE_WINS + d), and
   its magnitude is strictly below the magnitude of both *)
Theorem static_below_mate : forall b d, legal_material (white b) -> legal_material (black b) ->
  d <= 255 ->
  exists s, material_score b = Ok s
    /\ (BLACK_WINS - Z.of_N d < s < WHITE_WINS + Z.of_N d)%Z
    /\ (Z.abs s < Z.abs (WHITE_WINS + Z.of_N d))%Z
    /\ (Z.abs s < Z.abs (BLACK_WINS - Z.of_N d))%Z.
Proof.
  intros b d Hw Hk Hd. destruct (eval_bounded b Hw Hk) as [s [Hs [H1 H2]]].
  exists s. split; [exact Hs|]. unfold WHITE_WINS, BLACK_WINS in *. lia.
Qed.

(* ------------------------------------------------------------------------- *)
(** * 6. Antisymmetry, unconditional for legal material *)

Theorem eval_antisymmetric_legal : forall b, queens64 b ->
  legal_material (white b) -> legal_material (black b) ->
  exists s, material_score b = Ok s /\ material_score (flip_board b) = Ok (- s)%Z.
Proof.
  intros b Hq Hw Hk. destruct (eval_bounded b Hw Hk) as [s [Hs _]].
  exists s. split; [exact Hs | apply eval_antisymmetric; assumption].
Qed.

(* ------------------------------------------------------------------------- *)
(** * 7. `score`: stalemate is zero, mate scores are monotone in the remaining depth *)

Section ScoreFacts.
Variable T : ztable.
Variables rook_t bishop_t : N -> N -> N.

Notation game_ending' := (game_ending T rook_t bishop_t).
Notation score' := (score T rook_t bishop_t).

(* a result of game_ending other than Draw excludes the repetition shortcut of `score`
   (both thresholds are read from the generated constants) *)
Lemma EvalAux_ending_not_rep : forall b c e b1,
  game_ending' b c = Ok (Some e, b1) -> e <> Draw ->
  exists seen, max_seen b = Ok seen /\ (seen =? SCORE_REPETITION_COUNT) = false.
Proof.
  intros b c e b1 H Hne. unfold game_ending in H.
  destruct (max_seen b) as [seen| |]; cbn [bind] in H; try discriminate.
  exists seen. split; [reflexivity|].
  destruct (seen =? REPETITION_DRAW_COUNT) eqn:E.
  - injection H as H1 _. subst e. contradiction Hne. reflexivity.
  - change SCORE_REPETITION_COUNT with REPETITION_DRAW_COUNT. exact E.
Qed.

Lemma EvalAux_score_of_ending : forall b c d e b1 seen,
  max_seen b = Ok seen -> (seen =? SCORE_REPETITION_COUNT) = false ->
  game_ending' b c = Ok (e, b1) ->
  score' b c d =
    match e with
    | Some Checkmate =>
        let* s := (match c with
                   | White => sub16 BLACK_WINS (Z.of_N d)
                   | Black => add16 WHITE_WINS (Z.of_N d)
                   end) in Ok (s, b1)
    | Some Stalemate | Some Draw => Ok (0%Z, b1)
    | None => let* s := material_score b1 in Ok (s, b1)
    end.
Proof.
  intros b c d e b1 seen Hs Hne H. unfold score. rewrite Hs. cbn [bind]. rewrite Hne, H.
  reflexivity.
Qed.

(* stalemate scores zero, whatever the side to move and the remaining depth *)
Theorem stalemate_zero : forall b c d b1,
  game_ending' b c = Ok (Some Stalemate, b1) -> score' b c d = Ok (0%Z, b1).
Proof.
  intros b c d b1 H.
  destruct (EvalAux_ending_not_rep b c Stalemate b1 H) as [seen [Hs Hne]]; [discriminate|].
  rewrite (EvalAux_score_of_ending b c d _ b1 seen Hs Hne H). reflexivity.
Qed.

(* a draw by the fifty-move rule scores zero; (a draw by repetition never reaches this
   branch: `score` tests max_seen = SCORE_REPETITION_COUNT first, see the report) *)
Theorem draw_zero : forall b c d b1 seen,
  max_seen b = Ok seen -> seen <> SCORE_REPETITION_COUNT ->
  game_ending' b c = Ok (Some Draw, b1) -> score' b c d = Ok (0%Z, b1).
Proof.
  intros b c d b1 seen Hs Hne H. apply N.eqb_neq in Hne.
  rewrite (EvalAux_score_of_ending b c d _ b1 seen Hs Hne H). reflexivity.
Qed.

(* the value of a mate: the side to move is the side that is mated *)
Theorem mate_score_value : forall b c d b1, d <= 255 ->
  game_ending' b c = Ok (Some Checkmate, b1) ->
  score' b c d = Ok (match c with
                     | White => (BLACK_WINS - Z.of_N d)%Z
                     | Black => (WHITE_WINS + Z.of_N d)%Z
                     end, b1).
Proof.
  intros b c d b1 Hd H.
  destruct (EvalAux_ending_not_rep b c Checkmate b1 H) as [seen [Hs Hne]]; [discriminate|].
  rewrite (EvalAux_score_of_ending b c d _ b1 seen Hs Hne H).
  destruct (mate_scores_no_overflow d Hd) as [E1 E2].
  destruct c; [rewrite E2 | rewrite E1]; reflexivity.
Qed.

(* a mate found with more remaining depth scores strictly better for the mating side:
   strictly lower (better for Black) when White is mated, strictly higher when Black is *)
Theorem mate_depth_monotone : forall b c d1 d2 b1, d1 < d2 -> d2 <= 255 ->
  game_ending' b c = Ok (Some Checkmate, b1) ->
  exists s1 s2, score' b c d1 = Ok (s1, b1) /\ score' b c d2 = Ok (s2, b1) /\
    match c with
    | White => (s2 < s1)%Z     (* White mated: more depth left => better for Black *)
    | Black => (s1 < s2)%Z     (* Black mated: more depth left => better for White *)
    end.
Proof.
  intros b c d1 d2 b1 Hlt Hd H.
  rewrite (mate_score_value b c d1 b1) by (try exact H; lia).
  rewrite (mate_score_value b c d2 b1) by (try exact H; lia).
  do 2 eexists. split; [reflexivity|]. split; [reflexivity|].
  destruct c; lia.
Qed.

(* when the game has not ended, `score` is the static score of the threaded board *)
Theorem score_static : forall b c d b1 seen s,
  max_seen b = Ok seen -> seen <> SCORE_REPETITION_COUNT ->
  game_ending' b c = Ok (None, b1) -> material_score b1 = Ok s ->
  score' b c d = Ok (s, b1).
Proof.
  intros b c d b1 seen s Hs Hne H Hm. apply N.eqb_neq in Hne.
  rewrite (EvalAux_score_of_ending b c d _ b1 seen Hs Hne H). rewrite Hm. reflexivity.
Qed.

(* mate beats any static score of a legal-material board, at every depth *)
Theorem mate_dominates_static : forall b c d b1 b', d <= 255 ->
  game_ending' b c = Ok (Some Checkmate, b1) ->
  legal_material (white b') -> legal_material (black b') ->
  exists m s, score' b c d = Ok (m, b1) /\ material_score b' = Ok s /\
    match c with White => (m < s)%Z | Black => (s < m)%Z end.
Proof.
  intros b c d b1 b' Hd H Hw Hk.
  destruct (static_below_mate b' d Hw Hk Hd) as [s [Hs [[L1 L2] _]]].
  rewrite (mate_score_value b c d b1 Hd H). do 2 eexists. split; [reflexivity|].
  split; [exact Hs|]. destruct c; assumption.
Qed.

End ScoreFacts.

(* ------------------------------------------------------------------------- *)
(** * Non-vacuity *)

Definition init_white : pset :=
  {| pw := 0xFF00; kn := 0x42; bi := 0x24; rk := 0x81; qn := 0x8; kg := 0x10; occ := 0xFFFF |}.
Definition init_black : pset :=
  {| pw := 0x00FF000000000000; kn := 0x4200000000000000; bi := 0x2400000000000000;
     rk := 0x8100000000000000; qn := 0x0800000000000000; kg := 0x1000000000000000;
     occ := 0xFFFF000000000000 |}.
Definition init_board : board := set_black (set_white board_new init_white) init_black.

Example init_legal : legal_material init_white /\ legal_material init_black.
Proof. split; apply legal_materialb_spec; vm_compute; reflexivity. Qed.

(* king e1, nine queens (d1 and the whole 8th rank), two rooks, bishops, knights, no pawns *)
Definition nine_queens : pset :=
  {| pw := 0; kn := 0x42; bi := 0x24; rk := 0x81; qn := 0xFF00000000000008; kg := 0x10;
     occ := 0xFF000000000000FF |}.

Example nine_queens_legal : legal_material nine_queens /\ popcount (qn nine_queens) = 9.
Proof. split; [apply legal_materialb_spec|]; vm_compute; reflexivity. Qed.

(* ten queens are rejected *)
Example ten_queens_illegal :
  ~ legal_material {| pw := 0; kn := 0x42; bi := 0x24; rk := 0x81; qn := 0xFF00000000000108;
                      kg := 0x10; occ := 0xFF000000000001FF |}.
Proof. intro H. apply legal_materialb_spec in H. vm_compute in H. discriminate. Qed.

(* nine queens against a bare king: defined, within the bound, antisymmetric *)
Definition nq_board : board :=
  set_black (set_white board_new nine_queens)
    {| pw := 0; kn := 0; bi := 0; rk := 0; qn := 0; kg := 0x1000000000; occ := 0x1000000000 |}.

Example nq_score : exists s, material_score nq_board = Ok s /\ (0 < s)%Z
  /\ (s < WHITE_WINS - 255)%Z /\ material_score (flip_board nq_board) = Ok (- s)%Z.
Proof. eexists. vm_compute. repeat split. Qed.

Example ex_board_legal : legal_material (white ex_board) /\ legal_material (black ex_board) /\ queens64 ex_board.
Proof.
  split; [|split]; [apply legal_materialb_spec; vm_compute; reflexivity ..|].
  apply board64_queens64, ex_board64.
Qed.

Example init_score : material_score init_board = Ok 0%Z
  /\ player_material init_board White = player_material init_board Black
  /\ is_endgame init_board = false.
Proof. vm_compute. repeat split. Qed.

Example mate_scores_ex : sub16 BLACK_WINS 255 = Ok (BLACK_WINS - 255)%Z /\ add16 WHITE_WINS 255 = Ok (WHITE_WINS + 255)%Z.
Proof. vm_compute. split; reflexivity. Qed.

Print Assumptions eval_bounded.
Print Assumptions static_below_mate.
Print Assumptions eval_antisymmetric_legal.
Print Assumptions stalemate_zero.
Print Assumptions mate_depth_monotone.
Print Assumptions mate_dominates_static.
