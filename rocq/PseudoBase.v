(* PseudoBase.v — shared infrastructure of the pseudo-legal refinement (C01, pseudo layer):
   list lemmas (membership in flat_map, NoDup of keyed flat_maps), the mailbox view of a
   board (`at_`/`atc` of `abstract b` are `bget`), what a target cell contributes
   (`cell_moves`), the membership characterisation and NoDup of `expand`, and the
   invariant `PInv b c` the generation layer needs, with its boolean version.
   No axioms. *)
From Coq Require Import Lia ZArith NArith List Bool.
From ChessV Require Import Bits Types Board Moves Rays MoveGen Rules Abs GeomProofs.
From ChessV Require Import BitsLemmas BoardLemmas WfReflect.
Import ListNotations.
Open Scope N_scope.
Open Scope list_scope.

(* ------------------------------------------------------------------ *)
(** * lists *)

Lemma PB_NoDup_app {A} (l1 l2 : list A) :
  NoDup l1 -> NoDup l2 -> (forall x, In x l1 -> In x l2 -> False) -> NoDup (l1 ++ l2).
Proof.
  induction l1 as [|a l1 IH]; intros N1 N2 D; [exact N2|].
  inversion N1 as [|? ? Hn N1']; subst. cbn [app]. constructor.
  - intro Hin. apply in_app_or in Hin. destruct Hin as [Hin|Hin]; [contradiction|].
    apply (D a); [left; reflexivity | exact Hin].
  - apply IH; [exact N1' | exact N2 |]. intros x Hx1 Hx2. apply (D x); [right; exact Hx1 | exact Hx2].
Qed.

Lemma PB_NoDup_app_inv {A} (l1 l2 : list A) :
  NoDup (l1 ++ l2) -> NoDup l1 /\ NoDup l2 /\ (forall x, In x l1 -> In x l2 -> False).
Proof.
  induction l1 as [|a l1 IH]; cbn [app]; intro ND.
  - split; [constructor|]. split; [exact ND|]. intros x [].
  - inversion ND as [|? ? Hn ND']; subst. destruct (IH ND') as (N1 & N2 & D).
    split; [|split; [exact N2|]].
    + constructor; [|exact N1]. intro Hin. apply Hn. apply in_or_app. left. exact Hin.
    + intros x [->|Hx] Hx2; [apply Hn; apply in_or_app; right; exact Hx2 | apply (D x Hx Hx2)].
Qed.

(* a flat_map whose blocks are NoDup and carry pairwise distinct keys is NoDup *)
Lemma PB_NoDup_flat_map_key {A B K} (f : A -> list B) (g : A -> K) (k : B -> K) l :
  NoDup (map g l) -> (forall x, In x l -> NoDup (f x)) ->
  (forall x y, In x l -> In y (f x) -> k y = g x) -> NoDup (flat_map f l).
Proof.
  induction l as [|a l IH]; intros NG NF KEY; cbn [flat_map]; [constructor|].
  cbn [map] in NG. inversion NG as [|? ? Hn NG']; subst.
  apply PB_NoDup_app.
  - apply NF. left. reflexivity.
  - apply IH; [exact NG' | |].
    + intros x Hx. apply NF. right. exact Hx.
    + intros x y Hx Hy. apply KEY; [right; exact Hx | exact Hy].
  - intros y Hy1 Hy2. apply in_flat_map in Hy2. destruct Hy2 as [x [Hx Hy2]].
    apply Hn. apply in_map_iff. exists x. split; [|exact Hx].
    rewrite <- (KEY x y (or_intror Hx) Hy2). apply KEY; [left; reflexivity | exact Hy1].
Qed.

Lemma PB_NoDup_map_inj {A B} (f : A -> B) l :
  (forall x y, In x l -> In y l -> f x = f y -> x = y) -> NoDup l -> NoDup (map f l).
Proof.
  induction l as [|a l IH]; intros INJ ND; cbn [map]; [constructor|].
  inversion ND as [|? ? Hn ND']; subst. constructor.
  - intro Hin. apply in_map_iff in Hin. destruct Hin as [x [E Hx]].
    assert (x = a) by (apply INJ; [right; exact Hx | left; reflexivity | exact E]). subst x. contradiction.
  - apply IH; [|exact ND']. intros x y Hx Hy. apply INJ; right; assumption.
Qed.

(* a flat_map that keeps at most one pair (x, _) per x: its first components are a sub-list *)
Lemma PB_NoDup_fst_select {V} (h : N -> list (N * V)) l :
  NoDup l -> (forall x, h x = [] \/ exists v, h x = [(x, v)]) -> NoDup (map fst (flat_map h l)).
Proof.
  intros ND SEL. induction l as [|a l IH]; cbn [flat_map map]; [constructor|].
  inversion ND as [|? ? Hn ND']; subst. rewrite map_app.
  destruct (SEL a) as [E|[v E]]; rewrite E; cbn [map app fst]; [apply IH, ND'|].
  constructor; [|apply IH, ND'].
  intro Hin. apply in_map_iff in Hin. destruct Hin as [[x w] [Ex Hin]]. cbn [fst] in Ex. subst x.
  apply in_flat_map in Hin. destruct Hin as [y [Hy Hin]].
  destruct (SEL y) as [E'|[v' E']]; rewrite E' in Hin; [destruct Hin|].
  destruct Hin as [Hin|[]]. inversion Hin; subst. contradiction.
Qed.

Lemma PB_in_fst_select {V} (h : N -> list (N * V)) l pt :
  (forall x, h x = [] \/ exists v, h x = [(x, v)]) ->
  (In pt (flat_map h l) <-> In (fst pt) l /\ h (fst pt) = [pt]).
Proof.
  intro SEL. rewrite in_flat_map. split.
  - intros [x [Hx Hin]]. destruct (SEL x) as [E|[v E]]; rewrite E in Hin; [destruct Hin|].
    destruct Hin as [<-|[]]. cbn [fst]. split; [exact Hx | exact E].
  - intros [Hx E]. exists (fst pt). split; [exact Hx|]. rewrite E. left. reflexivity.
Qed.

Fixpoint nodupb (l : list N) : bool :=
  match l with [] => true | a :: r => negb (existsb (N.eqb a) r) && nodupb r end.
Lemma nodupb_NoDup l : nodupb l = true -> NoDup l.
Proof.
  induction l as [|a l IH]; cbn [nodupb]; intro H; [constructor|].
  apply andb_true_iff in H. destruct H as [H1 H2]. constructor; [|apply IH, H2].
  intro Hin. apply negb_true_iff in H1.
  assert (existsb (N.eqb a) l = true) as X.
  { apply existsb_exists. exists a. split; [exact Hin | apply N.eqb_refl]. }
  congruence.
Qed.

Lemma NoDup_ordered_squares : NoDup ordered_squares.
Proof. apply nodupb_NoDup. vm_compute. reflexivity. Qed.

Lemma in_ordered_squares i : In i ordered_squares <-> i < 64.
Proof.
  split.
  - intro H.
    assert (S : forallb (fun s => s <? 64) ordered_squares = true) by (vm_compute; reflexivity).
    rewrite forallb_forall in S. apply N.ltb_lt. apply S. exact H.
  - intro H.
    assert (S : forallb (fun s => existsb (N.eqb s) ordered_squares) squares = true) by (vm_compute; reflexivity).
    rewrite forallb_forall in S. specialize (S i (proj2 (BitsLemmas.in_squares i) H)).
    apply existsb_exists in S. destruct S as [x [Hx E]]. apply N.eqb_eq in E. subst x. exact Hx.
Qed.

(* ------------------------------------------------------------------ *)
(** * the mailbox view *)

Lemma at_abs b i : i < 64 -> at_ (abstract b) i = bget b i.
Proof. intro H. unfold at_, abstract. cbn [cells]. apply nth_map_squares. exact H. Qed.

Lemma atc_abs b f r : on_board f r = true -> atc (abstract b) f r = bget b (sq f r).
Proof.
  intro H. unfold atc. rewrite H. apply at_abs. apply (sq_on_board f r H).
Qed.

Lemma atc_abs_off b f r : on_board f r = false -> atc (abstract b) f r = None.
Proof. intro H. unfold atc. rewrite H. reflexivity. Qed.

Lemma atc_abs_sq b i : i < 64 -> atc (abstract b) (fileZ i) (rankZ i) = bget b i.
Proof.
  intro H. rewrite atc_abs by (apply file_rank_bounds, H). rewrite sq_file_rank. reflexivity.
Qed.

(* coordinates <-> square index *)
Lemma sq_coords f r t : on_board f r = true -> (t = sq f r <-> t < 64 /\ fileZ t = f /\ rankZ t = r).
Proof.
  intro H. destruct (sq_on_board f r H) as (L & F & R). split.
  - intros ->. tauto.
  - intros (Lt & Ft & Rt). rewrite <- Ft, <- Rt. symmetry. apply sq_file_rank.
Qed.

Lemma coords_on_board t : t < 64 -> on_board (fileZ t) (rankZ t) = true.
Proof. apply file_rank_bounds. Qed.

(* ------------------------------------------------------------------ *)
(** * board cells by colour *)

Lemma bget_by_side b i c : WF b ->
  bget b i = match pget (pieces b c) i with
             | Some p => Some (p, c)
             | None => match pget (pieces b (opp_c c)) i with
                       | Some p => Some (p, opp_c c)
                       | None => None
                       end
             end.
Proof.
  intro W. rewrite (bget_by_color b i W). destruct c; cbn [pieces opp_c]; [|reflexivity].
  destruct (pget (black b) i) as [p|] eqn:Eb; [|reflexivity].
  destruct (pget (white b) i) as [q|] eqn:Ew; [|reflexivity].
  exfalso. destruct W as (Ww & Wb & D).
  pose proof (pget_some_occ _ _ _ Ww Ew) as Ow. pose proof (pget_some_occ _ _ _ Wb Eb) as Ob.
  specialize (D i). rewrite Ow, Ob in D. discriminate.
Qed.

Lemma bget_own_iff b i c : WF b ->
  (mem i (occ (pieces b c)) = true <-> exists p, bget b i = Some (p, c)).
Proof.
  intro W. pose proof (WF_pieces b c W) as Wc. split.
  - intro H. destruct (pget_occ_some _ _ Wc H) as [p E]. exists p.
    apply (bget_some_iff b i p c W). exact E.
  - intros [p E]. apply (bget_some_iff b i p c W) in E. apply (pget_some_occ _ _ _ Wc E).
Qed.

Lemma bget_not_own b i c : WF b -> mem i (occ (pieces b c)) = false ->
  bget b i = option_map (fun p => (p, opp_c c)) (pget (pieces b (opp_c c)) i).
Proof.
  intros W H. rewrite (bget_by_side b i c W).
  rewrite (proj2 (pget_none _ i (WF_pieces b c W)) H).
  destruct (pget (pieces b (opp_c c)) i); reflexivity.
Qed.

Lemma bget_none_occupied b i : WF b -> (bget b i = None <-> mem i (occupied b) = false).
Proof. apply bget_none_iff. Qed.

Lemma bget_opp_iff b i c : WF b ->
  (mem i (occ (pieces b (opp_c c))) = true <-> exists p, bget b i = Some (p, opp_c c)).
Proof. intro W. apply bget_own_iff. exact W. Qed.

(* what the target cell contributes to a stepping / sliding piece *)
Definition cell_moves (c : color) (from t : N) (cl : cell) : list cmove :=
  match cl with
  | None => [Std from t None]
  | Some (pc, col) => if color_eqb col c then [] else [Std from t (Some pc)]
  end.

Lemma cell_moves_bget b c from t : WF b ->
  cell_moves c from t (bget b t)
  = if mem t (occ (pieces b c)) then [] else [Std from t (pget (pieces b (opp_c c)) t)].
Proof.
  intro W. destruct (mem t (occ (pieces b c))) eqn:M.
  - apply (bget_own_iff b t c W) in M. destruct M as [p E]. rewrite E. cbn [cell_moves].
    rewrite color_eqb_refl. reflexivity.
  - rewrite (bget_not_own b t c W M). destruct (pget (pieces b (opp_c c)) t) as [p|]; cbn [option_map cell_moves]; [|reflexivity].
    destruct (color_eqb (opp_c c) c) eqn:E; [|reflexivity].
    apply color_eqb_eq in E. exfalso. exact (opp_c_neq c E).
Qed.

(* ------------------------------------------------------------------ *)
(** * expand *)

Lemma in_expand_iff b c pts m :
  In m (expand b c pts) <->
  exists pt t, In pt pts /\ t < 64 /\ mem t (snd pt) = true
               /\ m = Std (fst pt) t (pget (pieces b (opp_c c)) t).
Proof.
  unfold expand. rewrite in_flat_map. split.
  - intros [pt [Hpt Hin]]. apply in_map_iff in Hin. destruct Hin as [t [E Ht]].
    apply bits_of_spec in Ht. exists pt, t. split; [exact Hpt|]. split; [tauto|]. split; [tauto|]. symmetry. exact E.
  - intros [pt [t (Hpt & L & M & E)]]. exists pt. split; [exact Hpt|].
    apply in_map_iff. exists t. split; [symmetry; exact E|]. apply bits_of_spec. tauto.
Qed.

Lemma expand_app b c p1 p2 : expand b c (p1 ++ p2) = expand b c p1 ++ expand b c p2.
Proof. unfold expand. apply flat_map_app. Qed.

Lemma NoDup_expand b c pts : NoDup (map fst pts) -> NoDup (expand b c pts).
Proof.
  intro ND. unfold expand.
  apply (PB_NoDup_flat_map_key _ fst mv_from); [exact ND | |].
  - intros pt _. apply PB_NoDup_map_inj; [|apply NoDup_bits_of].
    intros x y _ _ E. inversion E. reflexivity.
  - intros pt y _ Hy. apply in_map_iff in Hy. destruct Hy as [t [<- _]]. reflexivity.
Qed.

Lemma expand_std b c pts m : In m (expand b c pts) -> exists f t cap, m = Std f t cap.
Proof.
  intro H. apply in_expand_iff in H. destruct H as [pt [t (_ & _ & _ & E)]]. eauto.
Qed.

(* ------------------------------------------------------------------ *)
(** * rules-side list of the moves of one piece kind *)

Definition on_squares (P : position) (c : color) (pc : piece) (F : N -> list cmove) : list cmove :=
  flat_map (fun i => if is_pc (at_ P i) pc c then F i else []) squares.

Lemma is_pc_iff cl pc c : is_pc cl pc c = true <-> cl = Some (pc, c).
Proof. unfold is_pc. apply opt_pc_eqb_eq. Qed.

Lemma in_on_squares b c pc F m :
  In m (on_squares (abstract b) c pc F) <-> exists i, i < 64 /\ bget b i = Some (pc, c) /\ In m (F i).
Proof.
  unfold on_squares. rewrite in_flat_map. split.
  - intros [i [Hi Hin]]. apply BitsLemmas.in_squares in Hi. rewrite (at_abs b i Hi) in Hin.
    destruct (is_pc (bget b i) pc c) eqn:E; [|destruct Hin].
    apply is_pc_iff in E. exists i. tauto.
  - intros [i (Hi & E & Hin)]. exists i. split; [apply BitsLemmas.in_squares, Hi|].
    rewrite (at_abs b i Hi). apply is_pc_iff in E. rewrite E. exact Hin.
Qed.

(* the rules' list, class by class *)
Definition piece_moves_r (P : position) (c : color) (pc : piece) (i : N) : list cmove :=
  match pc with
  | Pawn => pawn_moves_r P c i
  | Knight => step_moves P c i knight_offsets
  | Bishop => slide_moves P c i diag_dirs
  | Rook => slide_moves P c i ortho_dirs
  | Queen => slide_moves P c i (ortho_dirs ++ diag_dirs)
  | King => step_moves P c i king_offsets
  end.

Lemma in_pseudo_legal b c m :
  In m (pseudo_legal (abstract b) c) <->
  (exists pc i, i < 64 /\ bget b i = Some (pc, c) /\ In m (piece_moves_r (abstract b) c pc i))
  \/ In m (castle_moves_r (abstract b) c).
Proof.
  unfold pseudo_legal. rewrite in_app_iff, in_flat_map.
  apply or_iff_compat_r. split.
  - intros [i [Hi Hin]]. apply BitsLemmas.in_squares in Hi. rewrite (at_abs b i Hi) in Hin.
    destruct (bget b i) as [[pc col]|] eqn:E; [|destruct Hin].
    destruct (color_eqb col c) eqn:Ec; [|destruct Hin]. apply color_eqb_eq in Ec. subst col.
    exists pc, i. split; [exact Hi|]. split; [exact E|]. destruct pc; exact Hin.
  - intros [pc [i (Hi & E & Hin)]]. exists i. split; [apply BitsLemmas.in_squares, Hi|].
    rewrite (at_abs b i Hi), E, color_eqb_refl. destruct pc; exact Hin.
Qed.

Lemma in_pseudo_legal_classes b c m :
  In m (pseudo_legal (abstract b) c) <->
  (exists pc, In m (on_squares (abstract b) c pc (piece_moves_r (abstract b) c pc)))
  \/ In m (castle_moves_r (abstract b) c).
Proof.
  rewrite in_pseudo_legal. apply or_iff_compat_r. split.
  - intros [pc [i H]]. exists pc. apply in_on_squares. exists i. exact H.
  - intros [pc H]. apply in_on_squares in H. destruct H as [i H]. exists pc, i. exact H.
Qed.

(* ------------------------------------------------------------------ *)
(** * the invariant of the generation layer *)

Definition home_sq (c : color) : N := match c with White => 4 | Black => 60 end.
Definition ks_rook_sq (c : color) : N := match c with White => 7 | Black => 63 end.
Definition qs_rook_sq (c : color) : N := match c with White => 0 | Black => 56 end.
Definition ks_bit (c : color) : N := match c with White => WK | Black => BK end.
Definition qs_bit (c : color) : N := match c with White => WQ | Black => BQ end.

(* the en-passant target, when set, is one empty square, and the pawn that skipped it
   (a pawn of the side NOT generating) stands right behind it as seen from c *)
Definition ep_inv (b : board) (c : color) : Prop :=
  top (ep_stack b) = 0 \/
  exists e, e < 64 /\ top (ep_stack b) = bit e /\ bget b e = None
            /\ bget b (ep_captured_square c e) = Some (Pawn, opp_c c).

(* a held right implies king and rook at home *)
Definition right_inv (b : board) (c : color) (mask rook_sq : N) : Prop :=
  N.land (top (cr_stack b)) mask = 0
  \/ (bget b (home_sq c) = Some (King, c) /\ bget b rook_sq = Some (Rook, c)).

Definition PInv (b : board) (c : color) : Prop :=
  WF b /\ ep_stack b <> [] /\ cr_stack b <> []
  /\ ep_inv b c
  /\ right_inv b c (ks_bit c) (ks_rook_sq c) /\ right_inv b c (qs_bit c) (qs_rook_sq c)
  /\ (forall i j, mem i (kg (pieces b c)) = true -> mem j (kg (pieces b c)) = true -> i = j).

(* boolean version *)
Definition ep_invb (b : board) (c : color) : bool :=
  let t := top (ep_stack b) in
  is_empty t
  || existsb (fun e => (t =? bit e) && is_none (bget b e)
                       && opt_pc_eqb (bget b (ep_captured_square c e)) (Some (Pawn, opp_c c))) squares.

Definition pinvb (b : board) (c : color) : bool :=
  wf_b b && ep_invb b c
  && right_ok b (ks_bit c) (home_sq c) (ks_rook_sq c) c
  && right_ok b (qs_bit c) (home_sq c) (qs_rook_sq c) c
  && (popcount (kg (pieces b c)) <=? 1).

Lemma is_none_iff {A} (o : option A) : is_none o = true <-> o = None.
Proof. destruct o; cbn; split; intro H; congruence. Qed.

Lemma ep_invb_sound b c : ep_invb b c = true -> ep_inv b c.
Proof.
  unfold ep_invb, ep_inv. intro H. apply orb_true_iff in H. destruct H as [H|H].
  - left. apply is_empty_spec. exact H.
  - right. apply existsb_exists in H. destruct H as [e [He H]].
    apply BitsLemmas.in_squares in He. rewrite !andb_true_iff in H. destruct H as [[H1 H2] H3].
    exists e. split; [exact He|]. split; [apply N.eqb_eq, H1|]. split; [apply is_none_iff, H2|].
    apply opt_pc_eqb_eq. exact H3.
Qed.

Lemma right_ok_sound b c mask rs : right_ok b mask (home_sq c) rs c = true -> right_inv b c mask rs.
Proof.
  unfold right_ok, right_inv. intro H. apply orb_true_iff in H. destruct H as [H|H].
  - left. apply N.eqb_eq. exact H.
  - right. apply andb_true_iff in H. destruct H as [H1 H2]. split; apply opt_pc_eqb_eq; assumption.
Qed.

Lemma popcount_le1_unique x : fits64 x -> popcount x <= 1 ->
  forall i j, mem i x = true -> mem j x = true -> i = j.
Proof.
  intros F H i j Mi Mj.
  assert (Li : In i (bits_of x)) by (apply bits_of_spec_fits; assumption).
  assert (Lj : In j (bits_of x)) by (apply bits_of_spec_fits; assumption).
  rewrite popcount_unfold in H.
  destruct (bits_of x) as [|a [|a' r]]; cbn [length] in H; [destruct Li | | lia].
  destruct Li as [<-|[]]. destruct Lj as [<-|[]]. reflexivity.
Qed.

Theorem pinvb_sound b c : pinvb b c = true -> PInv b c.
Proof.
  unfold pinvb. rewrite !andb_true_iff. intros [[[[Hw He] Hk] Hq] Hp].
  destruct (wf_b_WF b Hw) as (W & S1 & S2 & _).
  split; [exact W|]. split; [exact S1|]. split; [exact S2|].
  split; [apply ep_invb_sound, He|].
  split; [apply right_ok_sound, Hk|]. split; [apply right_ok_sound, Hq|].
  apply popcount_le1_unique; [apply (WFs_fits_locate _ King (WF_pieces b c W)) | apply N.leb_le, Hp].
Qed.

(* C12's [repr_ok] implies it, given that the target is a 64-bit board and lies on the
   rank beyond which the side to generate captures (third clause of [inv_ok]) *)
Lemma rank_of_lt8 i : i < 64 -> rank_of i < 8.
Proof. intro H. unfold rank_of. apply N.div_lt_upper_bound; lia. Qed.

Definition ep_shape2 (b : board) (i : N) : bool :=
  if rank_of i =? 2 then
    opt_pc_eqb (bget b (i + 8)) (Some (Pawn, White)) && is_none (bget b i) && is_none (bget b (i - 8))
  else if rank_of i =? 5 then
    opt_pc_eqb (bget b (i - 8)) (Some (Pawn, Black)) && is_none (bget b i) && is_none (bget b (i + 8))
  else false.

(* CAUTION: conversions on terms containing [popcount]/[tz] of a non-variable make the kernel
   loop (see BitsLemmas); everything below goes through rewriting with this equation *)
Lemma ep_ok_unfold b : Abs.ep_ok b =
  if is_empty (top (ep_stack b)) then true
  else (popcount (top (ep_stack b)) =? 1) && ep_shape2 b (tz (top (ep_stack b))).
Proof. unfold Abs.ep_ok, ep_shape2. cbv zeta. reflexivity. Qed.

Lemma ep_shape_inv b c e : ep_shape2 b e = true ->
  rank_of e = (match c with White => 5 | Black => 2 end) ->
  bget b e = None /\ bget b (ep_captured_square c e) = Some (Pawn, opp_c c).
Proof.
  intros H2 R. unfold ep_shape2 in H2.
  destruct c; rewrite R in H2.
  - change (2 =? 2) with true in H2. cbv iota in H2.
    rewrite !andb_true_iff in H2. destruct H2 as [[H2 H3] H4].
    split; [apply is_none_iff, H3|]. apply opt_pc_eqb_eq in H2.
    unfold ep_captured_square. cbn [opp_c].
    assert (e < 24) as G.
    { unfold rank_of in R. destruct (N.lt_ge_cases e 24) as [L|G]; [exact L|].
      assert (3 <= e / 8) by (apply N.div_le_lower_bound; lia). lia. }
    destruct (N.leb_spec 56 e); [lia|]. exact H2.
  - change (5 =? 2) with false in H2. change (5 =? 5) with true in H2. cbv iota in H2.
    rewrite !andb_true_iff in H2. destruct H2 as [[H2 H3] H4].
    split; [apply is_none_iff, H3|]. apply opt_pc_eqb_eq in H2.
    unfold ep_captured_square. cbn [opp_c].
    assert (8 <= e) as G.
    { unfold rank_of in R. destruct (N.lt_ge_cases e 8) as [L|G]; [|exact G].
      rewrite (N.div_small e 8 L) in R. discriminate. }
    destruct (N.ltb_spec e 8); [lia|]. exact H2.
Qed.

Lemma ep_ok_ep_inv b c : WF b -> Abs.ep_ok b = true -> fits64 (top (ep_stack b)) ->
  (is_empty (top (ep_stack b)) || (rank_of (tz (top (ep_stack b))) =? (match c with White => 5 | Black => 2 end))) = true ->
  ep_inv b c.
Proof.
  intros W H F R. rewrite ep_ok_unfold in H. unfold ep_inv.
  generalize dependent (top (ep_stack b)). intros t H F R.
  destruct (is_empty t) eqn:E; [left; apply is_empty_spec, E|].
  right. rewrite orb_false_l in R. apply N.eqb_eq in R.
  apply andb_true_iff in H. destruct H as [H1 H2]. apply N.eqb_eq in H1.
  destruct (popcount_1_bit _ F H1) as [e [Le Ee]]. subst t.
  rewrite (BoardLemmas.tz_bit e Le) in R, H2.
  exists e. split; [exact Le|]. split; [reflexivity|].
  apply ep_shape_inv; assumption.
Qed.

Theorem repr_ok_PInv b c : repr_ok b = true -> fits64 (top (ep_stack b)) ->
  (is_empty (top (ep_stack b)) || (rank_of (tz (top (ep_stack b))) =? (match c with White => 5 | Black => 2 end))) = true ->
  PInv b c.
Proof.
  intros H F R. pose proof H as H0. unfold repr_ok in H. rewrite !andb_true_iff in H.
  destruct H as [[[[[[[[Hw Kw] Kb] _] R1] R2] R3] R4] He].
  destruct (wf_b_WF b Hw) as (W & S1 & S2 & _).
  split; [exact W|]. split; [exact S1|]. split; [exact S2|].
  split; [apply ep_ok_ep_inv; assumption|].
  split; [destruct c; apply right_ok_sound; assumption|].
  split; [destruct c; apply right_ok_sound; assumption|].
  apply popcount_le1_unique; [apply (WFs_fits_locate _ King (WF_pieces b c W))|].
  apply N.eqb_eq in Kw, Kb. destruct c; cbn [pieces]; lia.
Qed.

Corollary inv_ok_PInv rt bt b : inv_ok rt bt b = true -> fits64 (top (ep_stack b)) -> PInv b (turn b).
Proof.
  unfold inv_ok. rewrite !andb_true_iff. intros [[H _] R] F. apply repr_ok_PInv; assumption.
Qed.

(* peeks never panic under the invariant *)
Lemma peek_ep_top b : ep_stack b <> [] -> peek_ep b = Ok (top (ep_stack b)).
Proof. unfold peek_ep, top. destruct (ep_stack b); [congruence|reflexivity]. Qed.
Lemma peek_rights_top b : cr_stack b <> [] -> peek_rights b = Ok (top (cr_stack b)).
Proof. unfold peek_rights, top. destruct (cr_stack b); [congruence|reflexivity]. Qed.

Lemma Ok_inj {A} (x y : A) : Ok x = Ok y -> x = y.
Proof. intro H. injection H. exact (fun e => e). Qed.

Example pinvb_new : pinvb (set_cr board_new [0]) White = true.
Proof. vm_compute. reflexivity. Qed.

Print Assumptions pinvb_sound.
Print Assumptions repr_ok_PInv.
