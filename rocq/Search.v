(* Search.v — src/alpha_beta_searcher (sequential semantics, cache-free: AlphaBeta.v /
   Interleave.v show the shared cache and the schedule cannot change the result once the
   key determines the value) and the plain minimax oracle.  Executable only. *)
From ChessV Require Export Eval.

Definition I16_MIN : Z := (-32768)%Z.
Definition I16_MAX : Z := 32767%Z.

Inductive search_err := NoAvailableMoves | DepthTooLow.
Inductive sres (A : Type) := SOk (a : A) | SErr (e : search_err) | SPanic.
Arguments SOk {A} a.
Arguments SErr {A} e.
Arguments SPanic {A}.

(* ---- prioritize_chess_moves.rs ---- *)
Definition effect_prio (e : effect) : N := match e with ECheckmate => 0 | ECheck => 1 | _ => 2 end.
Definition piece_prio (p : option piece) : N :=
  match p with Some Rook => 0 | Some Knight => 1 | Some Bishop => 2 | Some Pawn => 3 | _ => 4 end.
Definition type_prio (b : board) (m : cmove) : N :=
  match m with
  | Promo _ _ _ _ => 0
  | Std f _ _ => 1 + piece_prio (option_map fst (bget b f))
  | EnPassant _ _ => 1 + piece_prio (Some Pawn)
  | Castle _ _ => 1 + piece_prio (Some King)
  end.
Definition sort_key (b : board) (me : cmove * effect) : N :=
  100 * effect_prio (snd me)
  + (match mv_captures (fst me) with Some _ => 0 | None => 10 end)
  + type_prio b (fst me).

(* a stable sort by key: `sort_by` with a comparator that is the order of the key *)
Fixpoint insert_by {A} (k : A -> N) (x : A) (l : list A) : list A :=
  match l with
  | [] => [x]
  | y :: r => if k x <? k y then x :: l else y :: insert_by k x r
  end.
Definition stable_sort {A} (k : A -> N) (l : list A) : list A :=
  fold_left (fun acc x => insert_by k x acc) l [].
Definition sort_moves (b : board) (l : list (cmove * effect)) : list (cmove * effect) :=
  stable_sort (sort_key b) l.

Section WithGen.
Variable T : ztable.
Variables rook_t bishop_t : N -> N -> N.
Let gen_annotated := gen_annotated T rook_t bishop_t.
Let gen_moves := gen_moves T rook_t bishop_t.
Let score := score T rook_t bishop_t.

(* alpha_beta_minimax, board threaded (apply; toggle; recurse; undo; toggle) *)
Fixpoint ab (d : nat) (b : board) (alpha beta : Z) (maximizing : bool) {struct d} : res (Z * board) :=
  match d with
  | O => score b (turn b) 0
  | S d' =>
      let* (cands, b1) := gen_annotated b (turn b) in
      let sorted := sort_moves b1 cands in
      if is_nil sorted then score b1 (turn b1) (N.of_nat d)
      else if maximizing then
        (fix lp (ms : list (cmove * effect)) (bd : board) (value al : Z) {struct ms} : res (Z * board) :=
           match ms with
           | [] => Ok (value, bd)
           | me :: rest =>
               let* b2 := unwrap (apply_move T (fst me) bd) in
               let* (v, b4) := ab d' (toggle_turn b2) al beta false in
               let value' := Z.max value v in
               let* b5 := unwrap (undo_move T (fst me) b4) in
               let b6 := toggle_turn b5 in
               let al' := Z.max al value' in
               if (beta <=? al')%Z then Ok (value', b6) else lp rest b6 value' al'
           end) sorted b1 I16_MIN alpha
      else
        (fix lp (ms : list (cmove * effect)) (bd : board) (value be : Z) {struct ms} : res (Z * board) :=
           match ms with
           | [] => Ok (value, bd)
           | me :: rest =>
               let* b2 := unwrap (apply_move T (fst me) bd) in
               let* (v, b4) := ab d' (toggle_turn b2) alpha be true in
               let value' := Z.min value v in
               let* b5 := unwrap (undo_move T (fst me) b4) in
               let b6 := toggle_turn b5 in
               let be' := Z.min be value' in
               if (be' <=? alpha)%Z then Ok (value', b6) else lp rest b6 value' be'
           end) sorted b1 I16_MAX beta
  end.

Definition maximize (c : color) : bool := match c with White => true | Black => false end.

(* one root task of alpha_beta_search: on a clone of the board *)
Definition root_task (depth : nat) (b : board) (m : cmove) : res Z :=
  let* b1 := unwrap (apply_move T m b) in
  let* (v, _) := ab (Nat.pred depth) (toggle_turn b1) I16_MIN I16_MAX (negb (maximize (turn b))) in
  Ok v.

Fixpoint root_scores (depth : nat) (b : board) (ms : list (cmove * effect)) : res (list (Z * cmove)) :=
  match ms with
  | [] => Ok []
  | me :: rest =>
      let* v := root_task depth b (fst me) in
      let* r := root_scores depth b rest in
      Ok ((v, fst me) :: r)
  end.

(* descending stable sort on the score: sort_by(|a, b| b.cmp(a)) *)
Fixpoint insert_desc (x : Z * cmove) (l : list (Z * cmove)) : list (Z * cmove) :=
  match l with
  | [] => [x]
  | y :: r => if (fst y <? fst x)%Z then x :: l else y :: insert_desc x r
  end.
Definition sort_desc (l : list (Z * cmove)) : list (Z * cmove) :=
  fold_left (fun acc x => insert_desc x acc) l [].

(* alpha_beta_search (after the D5 repair: an empty root list is NoAvailableMoves) *)
Definition search (depth : N) (b : board) : sres (Z * cmove * board) :=
  if depth <? 1 then SErr DepthTooLow
  else
    match gen_annotated b (turn b) with
    | Ok (cands, b1) =>
        let sorted := sort_moves b1 cands in
        match root_scores (N.to_nat depth) b1 sorted with
        | Ok scored =>
            let s1 := sort_desc scored in
            let s2 := if maximize (turn b1) then rev s1 else s1 in
            match rev s2 with
            | [] => SErr NoAvailableMoves
            | (v, m) :: _ => SOk (v, m, b1)
            end
        | _ => SPanic
        end
    | _ => SPanic
    end.

(* ---- the oracle: plain fixed-depth minimax under the engine's own leaf evaluation ---- *)
Fixpoint mm (d : nat) (b : board) (maximizing : bool) {struct d} : res Z :=
  match d with
  | O => let* (s, _) := score b (turn b) 0 in Ok s
  | S d' =>
      let* (ms, b1) := gen_moves b (turn b) in
      if is_nil ms then let* (s, _) := score b1 (turn b1) (N.of_nat d) in Ok s
      else
        fold_left (fun acc m =>
            let* a := acc in
            let* b2 := unwrap (apply_move T m b1) in
            let* v := mm d' (toggle_turn b2) (negb maximizing) in
            Ok (if maximizing then Z.max a v else Z.min a v))
          ms (Ok (if maximizing then I16_MIN else I16_MAX))
  end.

(* the minimax value of every root move (what "the returned move attains the value" means) *)
Definition root_values (depth : nat) (b : board) : res (list (cmove * Z)) :=
  let* (ms, b1) := gen_moves b (turn b) in
  fold_right (fun m acc =>
      let* r := acc in
      let* b2 := unwrap (apply_move T m b1) in
      let* v := mm (Nat.pred depth) (toggle_turn b2) (negb (maximize (turn b1))) in
      Ok ((m, v) :: r)) (Ok []) ms.

(* the same list computed with the full-window alpha-beta of each child instead of the plain
   minimax: the fast oracle of the correspondence at larger depths.  Closed.root_values_ab_eq
   proves the two equal on every Sound position. *)
Definition root_values_ab (depth : nat) (b : board) : res (list (cmove * Z)) :=
  let* (ms, b1) := gen_moves b (turn b) in
  fold_right (fun m acc =>
      let* r := acc in
      let* b2 := unwrap (apply_move T m b1) in
      let* (v, _) := ab (Nat.pred depth) (toggle_turn b2) I16_MIN I16_MAX (negb (maximize (turn b1))) in
      Ok ((m, v) :: r)) (Ok []) ms.

End WithGen.
