(* SanProofs.v — C13: Standard Algebraic Notation.
   1. san_matches_spec: the engine's SAN writer (San.san_label, model of
      chess_move_to_algebraic_notation after the D10 repair) returns — never Err, never
      Panic — exactly the label the FIDE/PGN rule (San.spec_label) prescribes over the
      mailbox view of the board, for every candidate list whose moves fit the board.
   2. structured labels: san_label = render (structured ...), render is injective on
      well-formed structured labels.
   3. dis_separates: the disambiguation chosen by the writer separates two rivals.
   4. san_labels_nodup: no two candidates of a position share a label.
   No axioms. *)
From Coq Require Import Lia ZArith NArith List Bool String Ascii.
From ChessV Require Import Bits Types Board Moves Rays MoveGen Abs San
  BitsLemmas BoardLemmas WfReflect ZobristProofs RegexProofs UciProofs.
Import ListNotations.
Open Scope list_scope.
Open Scope string_scope.
Open Scope N_scope.
#[local] Arguments N.add : simpl never.
#[local] Arguments N.sub : simpl never.
#[local] Arguments N.mul : simpl never.
#[local] Arguments N.eqb : simpl never.
#[local] Arguments N.ltb : simpl never.
#[local] Arguments N.leb : simpl never.
#[local] Arguments N.div : simpl never.
#[local] Arguments N.modulo : simpl never.
#[local] Arguments N.shiftl : simpl never.
#[local] Arguments N.shiftr : simpl never.
#[local] Arguments N.land : simpl never.
#[local] Arguments N.lor : simpl never.
#[local] Arguments N.lxor : simpl never.
#[local] Arguments N.ldiff : simpl never.
#[local] Arguments N.testbit : simpl never.

(* ================================================================================== *)
(** * 1. The writer computes the FIDE/PGN label                                        *)
(* ================================================================================== *)

(* every candidate has the shape of a move of this position (UciProofs.fits): squares on
   the board, a piece on the origin square, the recorded capture is what stands on the
   destination, promotions are pawn moves to Q/R/B/N, en passant is a pawn move to the
   current target, a castle is one of the two real castles of the side to move and moves a
   king *)
Definition cands_fit (b : board) (all : list cmove) : Prop := forall o, In o all -> fits b o.

(* all king moves of the candidate list start on one square (one king per side, and all
   candidates belong to one side — see one_king_origin_of_board) *)
Definition one_king_origin (b : board) (all : list cmove) : Prop :=
  forall o1 o2 c1 c2, In o1 all -> In o2 all ->
    bget b (mv_from o1) = Some (King, c1) -> bget b (mv_from o2) = Some (King, c2) ->
    mv_from o1 = mv_from o2.

(* clause (4) of RegexProofs.label_hyps: a NON-capturing pawn move has no rival *)
Definition quiet_pawn_unrivalled (b : board) (all : list cmove) (m : cmove) : Prop :=
  forall col, bget b (mv_from m) = Some (Pawn, col) -> mv_captures m = None ->
    rivals b all m Pawn = [].

(* ---- the two definitions, as products of named parts ---- *)
Lemma san_label_ok : forall b all m e p col,
  (forall f t, m <> Castle f t) ->
  bget b (mv_from m) = Some (p, col) ->
  forallb (fun o => is_some (bget b (mv_from o))) all = true ->
  san_label b all m e =
  Ok (piece_str p
      ++ dis_of p (mv_from m) (is_some (mv_captures m)) (rivals b all m p)
      ++ cap_str_of m ++ sq_str (mv_to m) ++ promo_of m ++ suffix_of e).
Proof.
  intros b all m e p col Hnc Hb Hall.
  destruct m as [f t c | f t c pp | f t | f t];
    [ | | | exfalso; apply (Hnc f t); reflexivity ];
    unfold san_label; cbn [mv_from mv_to] in *; rewrite Hb, Hall; reflexivity.
Qed.

Definition spec_rivals (p : Rules.position) (legal : list cmove) (m : cmove) (pc : piece) : list cmove :=
  filter (fun o =>
            negb (mv_from o =? mv_from m) && (mv_to o =? mv_to m)
            && match o with Castle _ _ => false | _ => true end
            && match Rules.at_ p (mv_from o) with Some (q, _) => piece_eqb q pc | None => false end) legal.

Definition spec_dis (pc : piece) (from : N) (is_cap : bool) (rv : list cmove) : string :=
  match pc with
  | Pawn => if is_cap then ch (file_char from) else ""
  | _ =>
      if is_nil rv then ""
      else if negb (existsb (fun o => N.eqb (mv_from o mod 8) (from mod 8)) rv) then ch (file_char from)
      else if negb (existsb (fun o => N.eqb (mv_from o / 8) (from / 8)) rv) then ch (rank_char from)
      else sq_str from
  end.

Definition spec_piece (p : Rules.position) (m : cmove) : piece :=
  match Rules.at_ p (mv_from m) with Some (q, _) => q | None => Pawn end.

Lemma spec_label_core : forall p legal m e,
  (forall f t, m <> Castle f t) ->
  spec_label p legal m e =
  piece_str (spec_piece p m)
  ++ spec_dis (spec_piece p m) (mv_from m) (is_some (mv_captures m)) (spec_rivals p legal m (spec_piece p m))
  ++ cap_str_of m ++ sq_str (mv_to m) ++ promo_of m ++ suffix_of e.
Proof.
  intros p legal m e Hnc.
  destruct m as [f t c | f t c pp | f t | f t];
    [ | | | exfalso; apply (Hnc f t); reflexivity ]; reflexivity.
Qed.

(* ---- the rivals coincide: a castle is never a rival ---- *)
Lemma fits_origin : forall b o, fits b o -> exists p col, bget b (mv_from o) = Some (p, col).
Proof.
  intros b o [_ [_ [pc [col [ept [Hg _]]]]]]. exists pc, col. exact Hg.
Qed.

Lemma fits_castle_king : forall b f t, fits b (Castle f t) -> exists col, bget b f = Some (King, col).
Proof.
  intros b f t [_ [_ [pc [col [ept [Hg [_ [Hk _]]]]]]]]. cbn [mv_from] in Hg. subst pc.
  exists col. exact Hg.
Qed.

Lemma cands_fit_all_some : forall b all, cands_fit b all ->
  forallb (fun o => is_some (bget b (mv_from o))) all = true.
Proof.
  intros b all Hfit. apply forallb_forall. intros o Hin.
  destruct (fits_origin b o (Hfit o Hin)) as [p [col Hg]]. rewrite Hg. reflexivity.
Qed.

Lemma rivals_eq_spec : forall b all m p col,
  cands_fit b all -> one_king_origin b all -> In m all ->
  bget b (mv_from m) = Some (p, col) ->
  spec_rivals (abstract b) all m p = rivals b all m p.
Proof.
  intros b all m p col Hfit Hking Hm Hb. unfold spec_rivals, rivals.
  apply filter_ext_in. intros o Hin.
  pose proof (Hfit o Hin) as Hfo.
  assert (Hlt : mv_from o < 64) by (destruct Hfo as [Hlt _]; exact Hlt).
  rewrite (at_abstract b (mv_from o) Hlt).
  destruct o as [f' t' c' | f' t' c' pp' | f' t' | f' t']; try (rewrite andb_true_r; reflexivity).
  (* a castle: the engine's filter rejects it too *)
  rewrite andb_false_r. cbn [andb]. symmetry.
  destruct (fits_castle_king b f' t' Hfo) as [kc Hk]. cbn [mv_from mv_to] in *.
  rewrite Hk.
  destruct (piece_eqb King p) eqn:Ep; [|rewrite andb_false_r; reflexivity].
  apply piece_eqb_eq in Ep. subst p.
  assert (Hsame : f' = mv_from m).
  { apply (Hking (Castle f' t') m kc col Hin Hm); cbn [mv_from]; assumption. }
  subst f'. rewrite N.eqb_refl. reflexivity.
Qed.

(* ---- the disambiguation coincides: the 4-way case split ---- *)
Lemma dis_eq_spec_nonpawn : forall p from is_cap amb,
  p <> Pawn -> dis_of p from is_cap amb = spec_dis p from is_cap amb.
Proof.
  intros p from is_cap amb Hp. unfold dis_of.
  assert (Hpe : piece_eqb p Pawn = false) by (apply piece_eqb_neq; exact Hp).
  rewrite Hpe. cbn [andb].
  assert (Hgen : forall q, q <> Pawn ->
     spec_dis q from is_cap amb =
     if is_nil amb then ""
     else if negb (existsb (fun o => N.eqb (mv_from o mod 8) (from mod 8)) amb) then ch (file_char from)
     else if negb (existsb (fun o => N.eqb (mv_from o / 8) (from / 8)) amb) then ch (rank_char from)
     else sq_str from).
  { intros q Hq. destruct q; try reflexivity. contradiction. }
  rewrite (Hgen p Hp).
  destruct amb as [|a amb'].
  - reflexivity.
  - cbn [is_nil].
    destruct (existsb (fun o => mv_from o mod 8 =? from mod 8) (a :: amb'));
      destruct (existsb (fun o => mv_from o / 8 =? from / 8) (a :: amb')); reflexivity.
Qed.

Lemma dis_eq_spec_pawn : forall from is_cap amb,
  (is_cap = false -> amb = []) ->
  dis_of Pawn from is_cap amb = spec_dis Pawn from is_cap amb.
Proof.
  intros from is_cap amb H. destruct is_cap.
  - reflexivity.
  - rewrite (H eq_refl). reflexivity.
Qed.

Lemma is_some_false_none : forall {A} (o : option A), is_some o = false -> o = None.
Proof. intros A [a|] H; [discriminate|reflexivity]. Qed.

(* ---- castles ---- *)
Lemma castle_for_cases : forall c f t, castle_for c f t = true ->
  (f = 4 /\ t = 6) \/ (f = 4 /\ t = 2) \/ (f = 60 /\ t = 62) \/ (f = 60 /\ t = 58).
Proof.
  intros c f t H. unfold castle_for in H. destruct c;
    apply andb_true_iff in H; destruct H as [Hf Ht]; apply N.eqb_eq in Hf;
    apply orb_true_iff in Ht; destruct Ht as [Ht|Ht]; apply N.eqb_eq in Ht; subst; auto 6.
Qed.

Lemma fits_castle_real : forall b f t, fits b (Castle f t) ->
  (f = 4 /\ t = 6) \/ (f = 4 /\ t = 2) \/ (f = 60 /\ t = 62) \/ (f = 60 /\ t = 58).
Proof.
  intros b f t [_ [_ [pc [col [ept [_ [_ [_ Hc]]]]]]]]. exact (castle_for_cases _ f t Hc).
Qed.

(* ---- C13, first half ---- *)
Theorem san_matches_spec : forall b all m e,
  cands_fit b all -> one_king_origin b all -> In m all -> quiet_pawn_unrivalled b all m ->
  san_label b all m e = Ok (spec_label (abstract b) all m e).
Proof.
  intros b all m e Hfit Hking Hm Hquiet.
  pose proof (Hfit m Hm) as Hfm.
  destruct m as [f t c | f t c pp | f t | f t] eqn:Em.
  4: { (* castle *)
    destruct (fits_castle_real b f t Hfm) as [[-> ->]|[[-> ->]|[[-> ->]|[-> ->]]]]; reflexivity. }
  all: rewrite <- Em in *;
    assert (Hnc : forall f0 t0, m <> Castle f0 t0) by (intros f0 t0; rewrite Em; discriminate);
    destruct (fits_origin b m Hfm) as [p [col Hb]];
    assert (Hlt : mv_from m < 64) by (destruct Hfm as [Hlt _]; exact Hlt);
    rewrite (san_label_ok b all m e p col Hnc Hb (cands_fit_all_some b all Hfit));
    rewrite (spec_label_core (abstract b) all m e Hnc);
    assert (Hsp : spec_piece (abstract b) m = p)
      by (unfold spec_piece; rewrite (at_abstract b (mv_from m) Hlt), Hb; reflexivity);
    rewrite Hsp, (rivals_eq_spec b all m p col Hfit Hking Hm Hb);
    clear Hsp; f_equal; f_equal; f_equal;
    (destruct (piece_eq_dec p Pawn) as [Hp|Hp];
     [ subst p; apply dis_eq_spec_pawn; intro Hcap;
       apply (Hquiet col Hb); apply is_some_false_none; exact Hcap
     | apply dis_eq_spec_nonpawn; exact Hp ]).
Qed.

(* the writer never fails on the candidates of a position *)
Corollary san_label_total : forall b all m e,
  cands_fit b all -> In m all ->
  exists s, san_label b all m e = Ok s.
Proof.
  intros b all m e Hfit Hm. pose proof (Hfit m Hm) as Hfm.
  destruct m as [f t c | f t c pp | f t | f t] eqn:Em.
  4: { destruct (fits_castle_real b f t Hfm) as [[-> ->]|[[-> ->]|[[-> ->]|[-> ->]]]];
       eexists; reflexivity. }
  all: rewrite <- Em in *;
    assert (Hnc : forall f0 t0, m <> Castle f0 t0) by (intros f0 t0; rewrite Em; discriminate);
    destruct (fits_origin b m Hfm) as [p [col Hb]];
    rewrite (san_label_ok b all m e p col Hnc Hb (cands_fit_all_some b all Hfit));
    eexists; reflexivity.
Qed.

Corollary san_label_no_panic : forall b all m e,
  cands_fit b all -> In m all ->
  san_label b all m e <> Panic /\ forall err, san_label b all m e <> Err err.
Proof.
  intros b all m e Hfit Hm. destruct (san_label_total b all m e Hfit Hm) as [s Hs].
  rewrite Hs. split; [discriminate | intros err; discriminate].
Qed.

(* the whole list (enumerate_candidate_moves_with_algebraic_notation) *)
Definition all_quiet_pawns_unrivalled (b : board) (all : list cmove) : Prop :=
  forall m, In m all -> quiet_pawn_unrivalled b all m.

Theorem san_all_matches_spec : forall b all l,
  cands_fit b all -> one_king_origin b all -> all_quiet_pawns_unrivalled b all ->
  (forall m e, In (m, e) l -> In m all) ->
  san_all b all l = Ok (map (fun me => (fst me, spec_label (abstract b) all (fst me) (snd me))) l).
Proof.
  intros b all l Hfit Hking Hq. induction l as [|[m e] rest IH]; intros Hsub.
  - reflexivity.
  - cbn [san_all map fst snd].
    assert (Hm : In m all) by (apply (Hsub m e); left; reflexivity).
    rewrite (san_matches_spec b all m e Hfit Hking Hm (Hq m Hm)). cbn [bind].
    rewrite IH; [reflexivity|]. intros m0 e0 Hin. apply (Hsub m0 e0). right. exact Hin.
Qed.

(* one king per side and one side per candidate list give one_king_origin *)
Lemma one_king_origin_of_board : forall b all,
  WF b -> popcount (kg (pieces b (turn b))) = 1 ->
  (forall o, In o all -> exists p, bget b (mv_from o) = Some (p, turn b)) ->
  one_king_origin b all.
Proof.
  intros b all Hwf Hpop Hside o1 o2 c1 c2 Hin1 Hin2 Hk1 Hk2.
  destruct (Hside o1 Hin1) as [p1 Hs1]. destruct (Hside o2 Hin2) as [p2 Hs2].
  rewrite Hk1 in Hs1. rewrite Hk2 in Hs2.
  injection Hs1 as _ Hc1. injection Hs2 as _ Hc2. subst c1 c2.
  apply (bget_mem b _ King (turn b) Hwf) in Hk1, Hk2. cbn [locate] in Hk1, Hk2.
  assert (Hf : fits64 (kg (pieces b (turn b)))).
  { apply (WFs_fits_locate (pieces b (turn b)) King). apply WF_pieces. exact Hwf. }
  destruct (popcount_1_bit _ Hf Hpop) as [i [_ Hi]]. rewrite Hi in Hk1, Hk2.
  rewrite mem_bit in Hk1, Hk2. apply N.eqb_eq in Hk1, Hk2. congruence.
Qed.

(* ================================================================================== *)
(** * 2. Structured labels                                                             *)
(* ================================================================================== *)

Inductive dis := DNone | DFile (f : N) | DRank (r : N) | DSq (i : N).
Inductive sfx := SNone | SCheck | SMate.

Record mlabel := {
  sl_piece : piece;            (* Pawn = no letter *)
  sl_dis : dis;                (* origin file / rank / square shown *)
  sl_cap : bool;               (* 'x' *)
  sl_dest : N;                 (* destination square *)
  sl_promo : option piece;     (* '=' piece *)
  sl_sfx : sfx                 (* '+' / '#' *)
}.
Inductive slabel := SMove (L : mlabel) | SCastle (kingside : bool) (s : sfx).

Definition render_dis (d : dis) : string :=
  match d with
  | DNone => ""
  | DFile f => ch (ascii_of_N (97 + f))
  | DRank r => ch (ascii_of_N (49 + r))
  | DSq i => sq_str i
  end.
Definition render_cap (c : bool) : string := if c then "x" else "".
Definition render_promo (o : option piece) : string :=
  match o with Some pp => "=" ++ piece_str pp | None => "" end.
Definition render_sfx (s : sfx) : string :=
  match s with SNone => "" | SCheck => "+" | SMate => "#" end.
Definition render_move (L : mlabel) : string :=
  piece_str (sl_piece L) ++ render_dis (sl_dis L) ++ render_cap (sl_cap L)
  ++ sq_str (sl_dest L) ++ render_promo (sl_promo L) ++ render_sfx (sl_sfx L).
Definition render (l : slabel) : string :=
  match l with
  | SMove L => render_move L
  | SCastle k s => (if k then "O-O" else "O-O-O") ++ render_sfx s
  end.

Definition wf_dis (d : dis) : Prop :=
  match d with DNone => True | DFile f => f < 8 | DRank r => r < 8 | DSq i => i < 64 end.
Definition wf_promo (o : option piece) : Prop :=
  match o with None => True | Some pp => In pp [Queen; Rook; Bishop; Knight] end.
Definition wf_mlabel (L : mlabel) : Prop :=
  wf_dis (sl_dis L) /\ sl_dest L < 64 /\ wf_promo (sl_promo L).
Definition wf_slabel (l : slabel) : Prop :=
  match l with SMove L => wf_mlabel L | SCastle _ _ => True end.

(* ---- the structured label of a move ---- *)
Definition sfx_of (e : effect) : sfx :=
  match e with ECheck => SCheck | ECheckmate => SMate | _ => SNone end.
Definition promo_struct (m : cmove) : option piece :=
  match m with Promo _ _ _ pp => Some pp | _ => None end.

(* the writer's choice of disambiguation (get_disambiguating_chars), as data *)
Definition dis_struct (p : piece) (from : N) (is_cap : bool) (amb : list cmove) : dis :=
  if piece_eqb p Pawn && is_cap then DFile (from mod 8)
  else
    let same_file := existsb (fun o => N.eqb (mv_from o mod 8) (from mod 8)) amb in
    let same_rank := existsb (fun o => N.eqb (mv_from o / 8) (from / 8)) amb in
    match same_file, same_rank with
    | true, true => DSq from
    | true, false => DRank (from / 8)
    | false, true => DFile (from mod 8)
    | false, false => if is_nil amb then DNone else DFile (from mod 8)
    end.

Definition move_struct (b : board) (all : list cmove) (m : cmove) (e : effect) (p : piece) : mlabel :=
  {| sl_piece := p;
     sl_dis := dis_struct p (mv_from m) (is_some (mv_captures m)) (rivals b all m p);
     sl_cap := is_some (mv_captures m);
     sl_dest := mv_to m;
     sl_promo := promo_struct m;
     sl_sfx := sfx_of e |}.

Definition structured (b : board) (all : list cmove) (m : cmove) (e : effect) : slabel :=
  match m with
  | Castle f t => SCastle (t mod 8 =? 6) (sfx_of e)
  | _ => SMove (move_struct b all m e
                  (match bget b (mv_from m) with Some (q, _) => q | None => Pawn end))
  end.

Lemma structured_move : forall b all m e p col,
  (forall f t, m <> Castle f t) -> bget b (mv_from m) = Some (p, col) ->
  structured b all m e = SMove (move_struct b all m e p).
Proof.
  intros b all m e p col Hnc Hb.
  destruct m as [f t c | f t c pp | f t | f t];
    [ | | | exfalso; apply (Hnc f t); reflexivity ];
    unfold structured; rewrite Hb; reflexivity.
Qed.

Lemma render_dis_struct : forall p from is_cap amb,
  render_dis (dis_struct p from is_cap amb) = dis_of p from is_cap amb.
Proof.
  intros p from is_cap amb. unfold dis_struct, dis_of.
  destruct (piece_eqb p Pawn && is_cap); [reflexivity|].
  destruct (existsb (fun o => mv_from o mod 8 =? from mod 8) amb);
    destruct (existsb (fun o => mv_from o / 8 =? from / 8) amb); try reflexivity.
  destruct (is_nil amb); reflexivity.
Qed.

Lemma render_sfx_of : forall e, render_sfx (sfx_of e) = suffix_of e.
Proof. intros e. destruct e; reflexivity. Qed.

Lemma render_promo_struct : forall m, render_promo (promo_struct m) = promo_of m.
Proof. intros m. destruct m; reflexivity. Qed.

Lemma render_move_struct : forall b all m e p,
  render_move (move_struct b all m e p) =
  piece_str p ++ dis_of p (mv_from m) (is_some (mv_captures m)) (rivals b all m p)
  ++ cap_str_of m ++ sq_str (mv_to m) ++ promo_of m ++ suffix_of e.
Proof.
  intros b all m e p. unfold render_move, move_struct.
  cbn [sl_piece sl_dis sl_cap sl_dest sl_promo sl_sfx].
  rewrite render_dis_struct, render_promo_struct, render_sfx_of. reflexivity.
Qed.

(* the writer's output is the rendering of the structured label *)
Theorem san_label_structured : forall b all m e,
  cands_fit b all -> In m all ->
  san_label b all m e = Ok (render (structured b all m e)).
Proof.
  intros b all m e Hfit Hm. pose proof (Hfit m Hm) as Hfm.
  destruct m as [f t c | f t c pp | f t | f t] eqn:Em.
  4: { destruct (fits_castle_real b f t Hfm) as [[-> ->]|[[-> ->]|[[-> ->]|[-> ->]]]];
       unfold structured, render; rewrite render_sfx_of; reflexivity. }
  all: rewrite <- Em in *;
    assert (Hnc : forall f0 t0, m <> Castle f0 t0) by (intros f0 t0; rewrite Em; discriminate);
    destruct (fits_origin b m Hfm) as [p [col Hb]];
    rewrite (san_label_ok b all m e p col Hnc Hb (cands_fit_all_some b all Hfit));
    rewrite (structured_move b all m e p col Hnc Hb);
    cbn [render]; rewrite render_move_struct; reflexivity.
Qed.

Lemma dis_struct_wf : forall p from is_cap amb, from < 64 -> wf_dis (dis_struct p from is_cap amb).
Proof.
  intros p from is_cap amb Hlt.
  assert (Hm : from mod 8 < 8) by (apply N.mod_lt; discriminate).
  assert (Hd : from / 8 < 8) by (apply N.div_lt_upper_bound; [discriminate | exact Hlt]).
  unfold dis_struct.
  destruct (piece_eqb p Pawn && is_cap); [exact Hm|].
  destruct (existsb (fun o => mv_from o mod 8 =? from mod 8) amb);
    destruct (existsb (fun o => mv_from o / 8 =? from / 8) amb); cbn [wf_dis]; try assumption.
  destruct (is_nil amb); cbn [wf_dis]; [exact I | exact Hm].
Qed.

Lemma fits_promo_wf : forall b m, fits b m -> wf_promo (promo_struct m).
Proof.
  intros b m [_ [_ [pc [col [ept [_ [_ H]]]]]]].
  destruct m as [f t c | f t c pp | f t | f t]; cbn [promo_struct wf_promo]; try exact I.
  destruct H as [_ [_ Hpp]]. destruct pp; cbn in Hpp; try discriminate; cbn [In]; auto.
Qed.

Theorem structured_wf : forall b all m e, fits b m -> wf_slabel (structured b all m e).
Proof.
  intros b all m e Hfm.
  pose proof (fits_promo_wf b m Hfm) as Hpr.
  destruct Hfm as [Hf [Ht _]].
  destruct m as [f t c | f t c pp | f t | f t]; cbn [structured wf_slabel]; try exact I;
    (split; [apply dis_struct_wf; exact Hf | split; [exact Ht | exact Hpr]]).
Qed.

(* ================================================================================== *)
(** * 3. render is injective on well-formed structured labels                          *)
(* ================================================================================== *)

Lemma sapp_assoc : forall a b c : string, (a ++ b) ++ c = a ++ b ++ c.
Proof. intros a b c. induction a as [|x a IH]; cbn [append]; [reflexivity | rewrite IH; reflexivity]. Qed.

Lemma ascii_of_N_inj : forall a b, a < 256 -> b < 256 -> ascii_of_N a = ascii_of_N b -> a = b.
Proof.
  intros a b Ha Hb H. rewrite <- (N_ascii_embedding a Ha), <- (N_ascii_embedding b Hb), H. reflexivity.
Qed.

Lemma ch_inj : forall a b, ch a = ch b -> a = b.
Proof. intros a b H. injection H as H. exact H. Qed.

Lemma sq_str_inj : forall i j, i < 64 -> j < 64 -> sq_str i = sq_str j -> i = j.
Proof.
  intros i j Hi Hj H.
  pose proof (parse_square_sq_str i Hi) as Pi. pose proof (parse_square_sq_str j Hj) as Pj.
  unfold sq_str, ch in H. injection H as Hf Hr. rewrite Hf, Hr in Pi. rewrite Pi in Pj.
  injection Pj as Pj. exact Pj.
Qed.

Lemma render_dis_inj : forall d d', wf_dis d -> wf_dis d' -> render_dis d = render_dis d' -> d = d'.
Proof.
  intros d d' Hd Hd' H.
  destruct d as [|f|r|i], d' as [|f'|r'|i']; cbn [render_dis wf_dis] in *;
    unfold sq_str, ch in H; try discriminate H; try reflexivity.
  - injection H as H. apply ascii_of_N_inj in H; [|lia|lia]. f_equal. lia.
  - injection H as H. apply ascii_of_N_inj in H; [|lia|lia]. exfalso. lia.
  - injection H as H. apply ascii_of_N_inj in H; [|lia|lia]. exfalso. lia.
  - injection H as H. apply ascii_of_N_inj in H; [|lia|lia]. f_equal. lia.
  - f_equal. apply sq_str_inj; [exact Hd | exact Hd' | exact H].
Qed.

(* the character class of the middle part: files, ranks and 'x' *)
Definition inK (c : ascii) : bool :=
  let n := N_of_ascii c in
  ((97 <=? n) && (n <=? 104)) || ((49 <=? n) && (n <=? 56)) || (n =? 120).
Fixpoint allK (s : string) : bool :=
  match s with EmptyString => true | String c r => inK c && allK r end.
Definition headK (s : string) : bool :=
  match s with EmptyString => false | String c _ => inK c end.

(* a K-string followed by a string that does not start in K decomposes uniquely *)
Lemma span_unique : forall M M' E E',
  allK M = true -> allK M' = true -> headK E = false -> headK E' = false ->
  M ++ E = M' ++ E' -> M = M' /\ E = E'.
Proof.
  induction M as [|c M IH]; intros M' E E' HM HM' HE HE' H.
  - destruct M' as [|c' M']; [split; [reflexivity | exact H]|].
    exfalso. cbn [append] in H. subst E. cbn [headK] in HE. cbn [allK] in HM'.
    apply andb_true_iff in HM'. destruct HM' as [HK _]. rewrite HK in HE. discriminate.
  - destruct M' as [|c' M'].
    + exfalso. cbn [append] in H. subst E'. cbn [headK] in HE'. cbn [allK] in HM.
      apply andb_true_iff in HM. destruct HM as [HK _]. rewrite HK in HE'. discriminate.
    + cbn [append] in H. injection H as Hc H. subst c'.
      cbn [allK] in HM, HM'. apply andb_true_iff in HM, HM'.
      destruct HM as [_ HM]. destruct HM' as [_ HM'].
      destruct (IH M' E E' HM HM' HE HE' H) as [-> ->]. split; reflexivity.
Qed.

Lemma headK_app : forall M E, headK M = true -> headK (M ++ E) = true.
Proof. intros M E H. destruct M as [|c M]; [discriminate | exact H]. Qed.

(* ---- the middle part: disambiguation, capture mark, destination ---- *)
Definition eight : list N := [0; 1; 2; 3; 4; 5; 6; 7].
Definition all_dis : list dis :=
  (DNone :: map DFile eight ++ map DRank eight ++ map DSq squares)%list.

Lemma in_eight : forall f, f < 8 -> In f eight.
Proof.
  intros f H.
  assert (C : f = 0 \/ f = 1 \/ f = 2 \/ f = 3 \/ f = 4 \/ f = 5 \/ f = 6 \/ f = 7) by lia.
  unfold eight. cbn [In]. intuition.
Qed.

Lemma in_all_dis : forall d, wf_dis d -> In d all_dis.
Proof.
  intros d H. unfold all_dis. destruct d as [|f|r|i]; cbn [wf_dis] in H.
  - left. reflexivity.
  - right. apply in_or_app. left. apply in_map. apply in_eight. exact H.
  - right. apply in_or_app. right. apply in_or_app. left. apply in_map. apply in_eight. exact H.
  - right. apply in_or_app. right. apply in_or_app. right. apply in_map.
    apply BitsLemmas.in_squares. exact H.
Qed.

(* a decoder for the middle part, validated by a complete sweep of its 10 368 values *)
Fixpoint split_last2 (s : string) : string * string :=
  match s with
  | EmptyString => (EmptyString, EmptyString)
  | String a r =>
      match r with
      | String _ EmptyString => (EmptyString, s)
      | _ => let pr := split_last2 r in (String a (fst pr), snd pr)
      end
  end.
Fixpoint strip_x (s : string) : string * string :=
  match s with
  | EmptyString => (EmptyString, EmptyString)
  | String a r =>
      match r with
      | EmptyString => if Ascii.eqb a "x" then (EmptyString, "x") else (s, EmptyString)
      | _ => let pr := strip_x r in (String a (fst pr), snd pr)
      end
  end.
Definition decodeM (M : string) : string * string * string :=
  let pr := split_last2 M in
  let dc := strip_x (fst pr) in
  (fst dc, snd dc, snd pr).

Definition renderM (d : dis) (c : bool) (t : N) : string :=
  render_dis d ++ render_cap c ++ sq_str t.

Definition M_ok (d : dis) (c : bool) (t : N) : bool :=
  let M := renderM d c t in
  let r := decodeM M in
  String.eqb (fst (fst r)) (render_dis d) && String.eqb (snd (fst r)) (render_cap c)
  && String.eqb (snd r) (sq_str t) && allK M && headK M.

Lemma M_sweep :
  forallb (fun d => forallb (fun c => forallb (fun t => M_ok d c t) squares) [false; true]) all_dis = true.
Proof. vm_compute. reflexivity. Qed.

Lemma M_facts : forall d c t, wf_dis d -> t < 64 ->
  decodeM (renderM d c t) = (render_dis d, render_cap c, sq_str t)
  /\ allK (renderM d c t) = true /\ headK (renderM d c t) = true.
Proof.
  intros d c t Hd Ht. pose proof M_sweep as S. rewrite forallb_forall in S.
  specialize (S d (in_all_dis d Hd)). rewrite forallb_forall in S.
  assert (Hc : In c [false; true]) by (destruct c; cbn [In]; auto).
  specialize (S c Hc). rewrite forallb_forall in S.
  specialize (S t (proj2 (BitsLemmas.in_squares t) Ht)).
  unfold M_ok in S. cbv zeta in S.
  rewrite !andb_true_iff in S. destruct S as [[[[S1 S2] S3] S4] S5].
  apply String.eqb_eq in S1, S2, S3.
  split; [|split; assumption].
  destruct (decodeM (renderM d c t)) as [[x y] z]. cbn [fst snd] in S1, S2, S3. subst. reflexivity.
Qed.

Lemma renderM_inj : forall d c t d' c' t',
  wf_dis d -> t < 64 -> wf_dis d' -> t' < 64 ->
  renderM d c t = renderM d' c' t' -> d = d' /\ c = c' /\ t = t'.
Proof.
  intros d c t d' c' t' Hd Ht Hd' Ht' H.
  destruct (M_facts d c t Hd Ht) as [D1 _]. destruct (M_facts d' c' t' Hd' Ht') as [D2 _].
  rewrite H in D1. rewrite D1 in D2.
  assert (E1x : render_dis d = render_dis d') by exact (f_equal (fun x => fst (fst x)) D2).
  assert (E2x : render_cap c = render_cap c') by exact (f_equal (fun x => snd (fst x)) D2).
  assert (E3x : sq_str t = sq_str t') by exact (f_equal (fun x => snd x) D2).
  split; [apply render_dis_inj; assumption|].
  split; [destruct c, c'; try reflexivity; discriminate E2x | apply sq_str_inj; assumption].
Qed.

(* ---- the tail: promotion and suffix ---- *)
Definition renderE (o : option piece) (s : sfx) : string := render_promo o ++ render_sfx s.

Lemma renderE_head : forall o s, headK (renderE o s) = false.
Proof. intros o s. destruct o as [[]|]; destruct s; reflexivity. Qed.

Lemma renderE_inj : forall o s o' s', renderE o s = renderE o' s' -> o = o' /\ s = s'.
Proof.
  intros o s o' s' H.
  destruct o as [[]|]; destruct o' as [[]|]; destruct s; destruct s';
    cbn in H; try discriminate H; split; reflexivity.
Qed.

(* ---- the head: the piece letter ---- *)
Lemma piece_head_inj : forall p p' X X',
  headK X = true -> headK X' = true ->
  piece_str p ++ X = piece_str p' ++ X' -> p = p' /\ X = X'.
Proof.
  intros p p' X X' HX HX' H.
  destruct p, p'; cbn [piece_str append] in H;
    try (split; [reflexivity | first [exact H | injection H as H; exact H]]);
    try (exfalso; subst X; cbn [headK] in HX; discriminate HX);
    try (exfalso; subst X'; cbn [headK] in HX'; discriminate HX');
    exfalso; discriminate H.
Qed.

Lemma render_move_split : forall L,
  render_move L = piece_str (sl_piece L)
                  ++ (renderM (sl_dis L) (sl_cap L) (sl_dest L) ++ renderE (sl_promo L) (sl_sfx L)).
Proof.
  intros L. unfold render_move, renderM, renderE. rewrite !sapp_assoc. reflexivity.
Qed.

Lemma render_move_inj : forall L L', wf_mlabel L -> wf_mlabel L' ->
  render_move L = render_move L' -> L = L'.
Proof.
  intros L L' [Hd [Ht Hp]] [Hd' [Ht' Hp']] H.
  rewrite !render_move_split in H.
  destruct (M_facts (sl_dis L) (sl_cap L) (sl_dest L) Hd Ht) as [_ [A1 B1]].
  destruct (M_facts (sl_dis L') (sl_cap L') (sl_dest L') Hd' Ht') as [_ [A2 B2]].
  apply piece_head_inj in H; [| apply headK_app; exact B1 | apply headK_app; exact B2].
  destruct H as [Hpiece H].
  apply span_unique in H; [| assumption | assumption | apply renderE_head | apply renderE_head].
  destruct H as [HM HE].
  apply renderM_inj in HM; try assumption. destruct HM as [Hdis [Hcap Hdest]].
  apply renderE_inj in HE. destruct HE as [Hpromo Hsfx].
  destruct L, L'; cbn [sl_piece sl_dis sl_cap sl_dest sl_promo sl_sfx] in *. subst. reflexivity.
Qed.

Lemma render_move_not_castle : forall L (k : bool) s, wf_mlabel L ->
  render_move L <> (if k then "O-O" else "O-O-O") ++ render_sfx s.
Proof.
  intros L k s [Hd [Ht _]] H. rewrite render_move_split in H.
  destruct (M_facts (sl_dis L) (sl_cap L) (sl_dest L) Hd Ht) as [_ [_ B1]].
  apply (headK_app _ (renderE (sl_promo L) (sl_sfx L))) in B1.
  destruct (sl_piece L); destruct k; cbn [piece_str append] in H;
    try discriminate H;
    rewrite H in B1; cbn [headK] in B1; discriminate B1.
Qed.

Theorem render_inj : forall l l', wf_slabel l -> wf_slabel l' -> render l = render l' -> l = l'.
Proof.
  intros l l' Hw Hw' H. destruct l as [L|k s], l' as [L'|k' s']; cbn [render wf_slabel] in *.
  - f_equal. apply render_move_inj; assumption.
  - exfalso. exact (render_move_not_castle L k' s' Hw H).
  - exfalso. symmetry in H. exact (render_move_not_castle L' k s Hw' H).
  - destruct k, k', s, s'; cbn in H; try discriminate H; reflexivity.
Qed.

(* ================================================================================== *)
(** * 4. The disambiguation separates rivals                                           *)
(* ================================================================================== *)

Lemma existsb_false_in : forall {A} (f : A -> bool) l x, existsb f l = false -> In x l -> f x = false.
Proof.
  intros A f l x H Hin. destruct (f x) eqn:E; [|reflexivity].
  assert (Ht : existsb f l = true) by (apply existsb_exists; exists x; split; assumption).
  rewrite Ht in H. discriminate.
Qed.

Lemma no_same_file : forall from amb o,
  existsb (fun o => mv_from o mod 8 =? from mod 8) amb = false -> In o amb ->
  mv_from o mod 8 <> from mod 8.
Proof.
  intros from amb o H Hin. apply N.eqb_neq.
  exact (existsb_false_in (fun o => mv_from o mod 8 =? from mod 8) amb o H Hin).
Qed.

Lemma no_same_rank : forall from amb o,
  existsb (fun o => mv_from o / 8 =? from / 8) amb = false -> In o amb ->
  mv_from o / 8 <> from / 8.
Proof.
  intros from amb o H Hin. apply N.eqb_neq.
  exact (existsb_false_in (fun o => mv_from o / 8 =? from / 8) amb o H Hin).
Qed.

(* Two moves of like pieces to one square, each a rival of the other, never get the same
   disambiguation (pawn captures, which always show the file, excepted).  This is the point
   where the engine was wrong before the D10 repair: with rivals on another file AND
   another rank it printed nothing for both. *)
Theorem dis_separates : forall p from1 from2 cap1 cap2 amb1 amb2 o1 o2,
  piece_eqb p Pawn && cap1 = false -> piece_eqb p Pawn && cap2 = false ->
  In o2 amb1 -> mv_from o2 = from2 ->
  In o1 amb2 -> mv_from o1 = from1 ->
  dis_struct p from1 cap1 amb1 = dis_struct p from2 cap2 amb2 -> from1 = from2.
Proof.
  intros p from1 from2 cap1 cap2 amb1 amb2 o1 o2 Hc1 Hc2 Hin2 Hf2 Hin1 Hf1.
  unfold dis_struct. rewrite Hc1, Hc2.
  destruct amb1 as [|a1 r1]; [destruct Hin2|]. destruct amb2 as [|a2 r2]; [destruct Hin1|].
  cbn [is_nil].
  destruct (existsb (fun o => mv_from o mod 8 =? from1 mod 8) (a1 :: r1)) eqn:Esf1;
  destruct (existsb (fun o => mv_from o / 8 =? from1 / 8) (a1 :: r1)) eqn:Esr1;
  destruct (existsb (fun o => mv_from o mod 8 =? from2 mod 8) (a2 :: r2)) eqn:Esf2;
  destruct (existsb (fun o => mv_from o / 8 =? from2 / 8) (a2 :: r2)) eqn:Esr2;
  intro Heq; try discriminate Heq; injection Heq as Heq; try exact Heq; exfalso.
  (* same rank shown: m2 is a rival of m1 on m1's rank, but there is none *)
  - apply (no_same_rank from1 _ o2 Esr1 Hin2). rewrite Hf2. symmetry. exact Heq.
  (* same file shown: m2 is a rival of m1 on m1's file, but there is none *)
  - apply (no_same_file from1 _ o2 Esf1 Hin2). rewrite Hf2. symmetry. exact Heq.
  - apply (no_same_file from1 _ o2 Esf1 Hin2). rewrite Hf2. symmetry. exact Heq.
  - apply (no_same_file from1 _ o2 Esf1 Hin2). rewrite Hf2. symmetry. exact Heq.
  - apply (no_same_file from1 _ o2 Esf1 Hin2). rewrite Hf2. symmetry. exact Heq.
Qed.

Lemma in_rivals : forall b all m o p col,
  In o all -> mv_from o <> mv_from m -> mv_to o = mv_to m ->
  bget b (mv_from o) = Some (p, col) -> In o (rivals b all m p).
Proof.
  intros b all m o p col Hin Hne Hto Hb. unfold rivals. apply filter_In. split; [exact Hin|].
  rewrite Hb, Hto, N.eqb_refl, piece_eqb_refl.
  apply N.eqb_neq in Hne. rewrite Hne. reflexivity.
Qed.

(* ================================================================================== *)
(** * 5. No two candidates share a label                                               *)
(* ================================================================================== *)

(* two capturing pawn moves to one square start on one rank (they are moves of one side:
   both start one rank behind the destination) *)
Definition pawn_caps_same_rank (b : board) (all : list cmove) : Prop :=
  forall o1 o2 c1 c2, In o1 all -> In o2 all ->
    bget b (mv_from o1) = Some (Pawn, c1) -> bget b (mv_from o2) = Some (Pawn, c2) ->
    is_some (mv_captures o1) = true -> is_some (mv_captures o2) = true ->
    mv_to o1 = mv_to o2 -> mv_from o1 / 8 = mv_from o2 / 8.

(* what a candidate list must satisfy: *)
Definition legal_like (b : board) (all : list cmove) : Prop :=
  cands_fit b all /\ pawn_caps_same_rank b all.

(* fitting moves with the same origin, destination and promotion piece are equal *)
Lemma fits_same_squares : forall b m1 m2,
  fits b m1 -> fits b m2 ->
  (forall f t, m1 <> Castle f t) -> (forall f t, m2 <> Castle f t) ->
  mv_from m1 = mv_from m2 -> mv_to m1 = mv_to m2 -> promo_struct m1 = promo_struct m2 ->
  m1 = m2.
Proof.
  intros b m1 m2 [_ [_ [pc1 [col1 [ept1 [Hg1 [He1 Hs1]]]]]]] [_ [_ [pc2 [col2 [ept2 [Hg2 [He2 Hs2]]]]]]]
         Hnc1 Hnc2 Hfrom Hto Hpromo.
  rewrite Hfrom in Hg1. rewrite Hg1 in Hg2. injection Hg2 as Hpc _. subst pc2.
  rewrite He1 in He2. injection He2 as Hept. subst ept2.
  destruct m1 as [f1 t1 c1 | f1 t1 c1 pp1 | f1 t1 | f1 t1];
    [ | | | exfalso; apply (Hnc1 f1 t1); reflexivity ];
    (destruct m2 as [f2 t2 c2 | f2 t2 c2 pp2 | f2 t2 | f2 t2];
     [ | | | exfalso; apply (Hnc2 f2 t2); reflexivity ]);
    cbn [mv_from mv_to promo_struct] in *; subst f2 t2; try discriminate Hpromo.
  - destruct Hs1 as [Hc1 _]. destruct Hs2 as [Hc2 _]. subst c1 c2. reflexivity.
  - (* Std vs EnPassant: the Std pawn move would land on the ep target *)
    exfalso. destruct Hs1 as [_ [Hp _]]. destruct Hs2 as [Hpc Hept]. apply Hp; [assumption | symmetry; assumption].
  - destruct Hs1 as [_ [Hc1 _]]. destruct Hs2 as [_ [Hc2 _]]. subst c1 c2.
    injection Hpromo as Hpp. subst pp2. reflexivity.
  - exfalso. destruct Hs2 as [_ [Hp _]]. destruct Hs1 as [Hpc Hept]. apply Hp; [assumption | symmetry; assumption].
  - reflexivity.
Qed.

Lemma fits_castle_same : forall b f1 t1 f2 t2,
  fits b (Castle f1 t1) -> fits b (Castle f2 t2) -> (t1 mod 8 =? 6) = (t2 mod 8 =? 6) ->
  Castle f1 t1 = Castle f2 t2.
Proof.
  intros b f1 t1 f2 t2 [_ [_ [pc1 [col1 [ept1 [_ [_ [_ Hc1]]]]]]]] [_ [_ [pc2 [col2 [ept2 [_ [_ [_ Hc2]]]]]]]] Hk.
  unfold castle_for in Hc1, Hc2. destruct (turn b);
    apply andb_true_iff in Hc1, Hc2; destruct Hc1 as [Hf1 Ht1]; destruct Hc2 as [Hf2 Ht2];
    apply N.eqb_eq in Hf1, Hf2; subst f1 f2;
    apply orb_true_iff in Ht1, Ht2;
    destruct Ht1 as [Ht1|Ht1]; destruct Ht2 as [Ht2|Ht2];
    apply N.eqb_eq in Ht1, Ht2; subst t1 t2; try reflexivity; vm_compute in Hk; discriminate Hk.
Qed.

Lemma square_of_file_rank : forall i j, i mod 8 = j mod 8 -> i / 8 = j / 8 -> i = j.
Proof.
  intros i j Hm Hd. rewrite (N.div_mod i 8), (N.div_mod j 8) by discriminate.
  rewrite Hm, Hd. reflexivity.
Qed.

(* C13, second half: the label determines the move *)
Theorem san_labels_nodup : forall b all m1 m2 e1 e2 s,
  legal_like b all -> In m1 all -> In m2 all ->
  san_label b all m1 e1 = Ok s -> san_label b all m2 e2 = Ok s -> m1 = m2.
Proof.
  intros b all m1 m2 e1 e2 s [Hfit Hpawn] Hin1 Hin2 Hs1 Hs2.
  pose proof (Hfit m1 Hin1) as Hf1. pose proof (Hfit m2 Hin2) as Hf2.
  rewrite (san_label_structured b all m1 e1 Hfit Hin1) in Hs1.
  rewrite (san_label_structured b all m2 e2 Hfit Hin2) in Hs2.
  rewrite <- Hs2 in Hs1. injection Hs1 as Hr.
  apply render_inj in Hr; [| apply structured_wf; exact Hf1 | apply structured_wf; exact Hf2].
  destruct (fits_origin b m1 Hf1) as [p1 [col1 Hb1]].
  destruct (fits_origin b m2 Hf2) as [p2 [col2 Hb2]].
  assert (Hcases : forall m, (exists f t, m = Castle f t) \/ (forall f t, m <> Castle f t)).
  { intros m. destruct m as [f t c | f t c pp | f t | f t];
      try (right; intros f0 t0; discriminate). left. exists f, t. reflexivity. }
  destruct (Hcases m1) as [[f1 [t1 Em1]] | Hnc1]; destruct (Hcases m2) as [[f2 [t2 Em2]] | Hnc2].
  - (* two castles of the same kind *)
    subst m1 m2. cbn [structured] in Hr. injection Hr as Hk _.
    apply (fits_castle_same b); assumption.
  - exfalso. subst m1. rewrite (structured_move b all m2 e2 p2 col2 Hnc2 Hb2) in Hr.
    cbn [structured] in Hr. discriminate Hr.
  - exfalso. subst m2. rewrite (structured_move b all m1 e1 p1 col1 Hnc1 Hb1) in Hr.
    cbn [structured] in Hr. discriminate Hr.
  - rewrite (structured_move b all m1 e1 p1 col1 Hnc1 Hb1) in Hr.
    rewrite (structured_move b all m2 e2 p2 col2 Hnc2 Hb2) in Hr.
    unfold move_struct in Hr. injection Hr as Hp Hdis Hcap Hto Hpromo _. subst p2.
    assert (Hfrom : mv_from m1 = mv_from m2).
    { destruct (N.eq_dec (mv_from m1) (mv_from m2)) as [Heq|Hne]; [exact Heq|].
      assert (R2 : In m2 (rivals b all m1 p1)).
      { apply (in_rivals b all m1 m2 p1 col2); auto. }
      assert (R1 : In m1 (rivals b all m2 p1)).
      { apply (in_rivals b all m2 m1 p1 col1); auto. }
      destruct (piece_eqb p1 Pawn && is_some (mv_captures m1)) eqn:Epc.
      - (* two pawn captures: the file is shown, the rank is forced *)
        apply andb_true_iff in Epc. destruct Epc as [Ep Ec]. apply piece_eqb_eq in Ep. subst p1.
        assert (Ec2 : is_some (mv_captures m2) = true) by (rewrite <- Hcap; exact Ec).
        unfold dis_struct in Hdis. rewrite Ec, Ec2 in Hdis. cbn [piece_eqb andb] in Hdis.
        injection Hdis as Hfile.
        apply square_of_file_rank; [exact Hfile|].
        apply (Hpawn m1 m2 col1 col2); assumption.
      - apply (dis_separates p1 (mv_from m1) (mv_from m2)
                 (is_some (mv_captures m1)) (is_some (mv_captures m2))
                 (rivals b all m1 p1) (rivals b all m2 p1) m1 m2);
          try assumption; try reflexivity.
        rewrite <- Hcap. exact Epc. }
    apply (fits_same_squares b); assumption.
Qed.

(* hence the labelled list produced for a duplicate-free candidate list has no repeated label *)
Lemma san_all_shape : forall b all l r,
  san_all b all l = Ok r ->
  map fst r = map fst l /\
  forall m s, In (m, s) r -> exists e, In (m, e) l /\ san_label b all m e = Ok s.
Proof.
  intros b all l. induction l as [|[m e] rest IH]; intros r H.
  - cbn [san_all] in H. injection H as <-. split; [reflexivity|]. intros m s [].
  - cbn [san_all] in H.
    destruct (san_label b all m e) as [s0| |] eqn:Es; try discriminate H. cbn [bind] in H.
    destruct (san_all b all rest) as [r0| |] eqn:Er; try discriminate H. cbn [bind] in H.
    injection H as <-. destruct (IH r0 eq_refl) as [IH1 IH2]. split.
    + cbn [map fst]. rewrite IH1. reflexivity.
    + intros m' s' [Heq|Hin].
      * injection Heq as <- <-. exists e. split; [left; reflexivity | exact Es].
      * destruct (IH2 m' s' Hin) as [e' [Hin' Hl]]. exists e'. split; [right; exact Hin' | exact Hl].
Qed.

Lemma NoDup_map_inj_in : forall {A B} (f : A -> B) (l : list A),
  NoDup l -> (forall x y, In x l -> In y l -> f x = f y -> x = y) -> NoDup (map f l).
Proof.
  intros A B f l Hnd. induction Hnd as [|a l Hnotin Hnd IH]; intros Hinj.
  - constructor.
  - cbn [map]. constructor.
    + intro Hin. apply in_map_iff in Hin. destruct Hin as [x [Hfx Hx]].
      assert (x = a) by (apply Hinj; [right; exact Hx | left; reflexivity | exact Hfx]).
      subst x. contradiction.
    + apply IH. intros x y Hx Hy. apply Hinj; right; assumption.
Qed.

Theorem san_all_labels_nodup : forall b all l r,
  legal_like b all -> (forall m e, In (m, e) l -> In m all) -> NoDup (map fst l) ->
  san_all b all l = Ok r -> NoDup (map snd r).
Proof.
  intros b all l r Hll Hsub Hnd H.
  destruct (san_all_shape b all l r H) as [Hfst Hlab].
  assert (Hndr : NoDup r).
  { apply (NoDup_map_inv fst). rewrite Hfst. exact Hnd. }
  apply NoDup_map_inj_in; [exact Hndr|].
  intros [m1 s1] [m2 s2] Hx Hy Heq. cbn [snd] in Heq. subst s2.
  destruct (Hlab m1 s1 Hx) as [e1 [Hi1 Hl1]]. destruct (Hlab m2 s1 Hy) as [e2 [Hi2 Hl2]].
  assert (m1 = m2).
  { apply (san_labels_nodup b all m1 m2 e1 e2 s1 Hll); try assumption.
    - exact (Hsub m1 e1 Hi1).
    - exact (Hsub m2 e2 Hi2). }
  subst m2. reflexivity.
Qed.

(* ================================================================================== *)
(** * 6. Decidable forms of the hypotheses                                             *)
(* ================================================================================== *)

Definition cands_fitb (b : board) (all : list cmove) : bool := forallb (fitsb b) all.

Definition same_sideb (b : board) (all : list cmove) : bool :=
  forallb (fun o => match bget b (mv_from o) with
                    | Some (_, c) => color_eqb c (turn b)
                    | None => false
                    end) all.

Definition is_pawn_at (b : board) (i : N) : bool :=
  match bget b i with Some (Pawn, _) => true | _ => false end.

Definition quiet_pawnsb (b : board) (all : list cmove) : bool :=
  forallb (fun m => implb (is_pawn_at b (mv_from m) && negb (is_some (mv_captures m)))
                          (is_nil (rivals b all m Pawn))) all.

Definition pawn_capsb (b : board) (all : list cmove) : bool :=
  forallb (fun o1 => forallb (fun o2 =>
     implb (is_pawn_at b (mv_from o1) && is_pawn_at b (mv_from o2)
            && is_some (mv_captures o1) && is_some (mv_captures o2) && (mv_to o1 =? mv_to o2))
           (mv_from o1 / 8 =? mv_from o2 / 8)) all) all.

(* everything san_matches_spec and san_labels_nodup ask of a position and its candidates *)
Definition position_likeb (b : board) (all : list cmove) : bool :=
  wf_b b && (popcount (kg (pieces b (turn b))) =? 1)
  && cands_fitb b all && same_sideb b all && quiet_pawnsb b all && pawn_capsb b all.

Lemma cands_fitb_spec : forall b all, cands_fitb b all = true -> cands_fit b all.
Proof.
  intros b all H o Hin. unfold cands_fitb in H. rewrite forallb_forall in H.
  apply fitsb_spec. exact (H o Hin).
Qed.

Lemma is_pawn_at_true : forall b i col, bget b i = Some (Pawn, col) -> is_pawn_at b i = true.
Proof. intros b i col H. unfold is_pawn_at. rewrite H. reflexivity. Qed.

Lemma quiet_pawnsb_spec : forall b all, quiet_pawnsb b all = true -> all_quiet_pawns_unrivalled b all.
Proof.
  intros b all H m Hin col Hb Hc. unfold quiet_pawnsb in H. rewrite forallb_forall in H.
  specialize (H m Hin). rewrite (is_pawn_at_true b _ col Hb), Hc in H. cbn in H.
  destruct (rivals b all m Pawn); [reflexivity | discriminate H].
Qed.

Lemma pawn_capsb_spec : forall b all, pawn_capsb b all = true -> pawn_caps_same_rank b all.
Proof.
  intros b all H o1 o2 c1 c2 Hin1 Hin2 Hb1 Hb2 Hc1 Hc2 Hto.
  unfold pawn_capsb in H. rewrite forallb_forall in H. specialize (H o1 Hin1).
  rewrite forallb_forall in H. specialize (H o2 Hin2).
  rewrite (is_pawn_at_true b _ c1 Hb1), (is_pawn_at_true b _ c2 Hb2), Hc1, Hc2, Hto, N.eqb_refl in H.
  cbn [andb implb] in H. apply N.eqb_eq in H. exact H.
Qed.

Lemma same_sideb_spec : forall b all, same_sideb b all = true ->
  forall o, In o all -> exists p, bget b (mv_from o) = Some (p, turn b).
Proof.
  intros b all H o Hin. unfold same_sideb in H. rewrite forallb_forall in H. specialize (H o Hin).
  destruct (bget b (mv_from o)) as [[p c]|]; [|discriminate H].
  apply color_eqb_eq in H. subst c. exists p. reflexivity.
Qed.

Theorem position_likeb_spec : forall b all, position_likeb b all = true ->
  cands_fit b all /\ one_king_origin b all /\ all_quiet_pawns_unrivalled b all /\ legal_like b all.
Proof.
  intros b all H. unfold position_likeb in H. rewrite !andb_true_iff in H.
  destruct H as [[[[[Hwf Hk] Hfit] Hside] Hq] Hp].
  destruct (wf_b_WF b Hwf) as [HWF _]. apply N.eqb_eq in Hk.
  pose proof (cands_fitb_spec b all Hfit) as Hf.
  split; [exact Hf|]. split.
  - apply one_king_origin_of_board; [exact HWF | exact Hk | apply same_sideb_spec; exact Hside].
  - split; [apply quiet_pawnsb_spec; exact Hq|].
    split; [exact Hf | apply pawn_capsb_spec; exact Hp].
Qed.

(* clause (4) of RegexProofs.label_hyps is the pawn hypothesis of san_matches_spec *)
Lemma label_hyps_quiet : forall b all m, label_hyps b all m -> quiet_pawn_unrivalled b all m.
Proof. intros b all m [_ [_ [_ H]]]. exact H. Qed.

(* C13 for one position, in one statement *)
Corollary san_c13 : forall b all l r,
  position_likeb b all = true -> (forall m e, In (m, e) l -> In m all) -> NoDup (map fst l) ->
  san_all b all l = Ok r ->
  r = map (fun me => (fst me, spec_label (abstract b) all (fst me) (snd me))) l
  /\ NoDup (map snd r).
Proof.
  intros b all l r H Hsub Hnd Hr.
  destruct (position_likeb_spec b all H) as [Hf [Hk [Hq Hll]]]. split.
  - rewrite (san_all_matches_spec b all l Hf Hk Hq Hsub) in Hr. injection Hr as <-. reflexivity.
  - exact (san_all_labels_nodup b all l r Hll Hsub Hnd Hr).
Qed.

(* ================================================================================== *)
(** * 7. Examples                                                                      *)
(* ================================================================================== *)

Fixpoint put_list (b : board) (l : list (N * piece * color)) : res board :=
  match l with
  | [] => Ok b
  | (i, p, c) :: rest => let* b' := put example_table b i p c in put_list b' rest
  end.
Definition mk_board (rights : N) (ep : list N) (l : list (N * piece * color)) : board :=
  match put_list (set_ep (set_cr board_new [rights]) ep) l with Ok b => b | _ => board_new end.

(* 4k3/8/8/8/1N3N2/8/1N6/4K3 w - -  (three knights: b2, b4, f4 all reach d3) *)
Definition three_knights : board :=
  mk_board 0 [0] [(4, King, White); (60, King, Black); (25, Knight, White); (29, Knight, White); (9, Knight, White)].
(* 4k3/8/8/8/8/5N2/8/1N2K3 w - -  (knights b1 and f3 share neither file nor rank, both reach d2) *)
Definition knights_no_shared : board :=
  mk_board 0 [0] [(4, King, White); (60, King, Black); (21, Knight, White); (1, Knight, White)].
(* r1b3k1/1P6/8/2PpP3/8/1N3N2/8/R3K2R w KQ d6: castles, en passant from two files,
   capturing and quiet promotions, rival knights and rooks *)
Definition busy : board :=
  mk_board 10 [bit 43; 0]
    [(4, King, White); (0, Rook, White); (7, Rook, White); (36, Pawn, White); (34, Pawn, White);
     (49, Pawn, White); (17, Knight, White); (21, Knight, White);
     (62, King, Black); (56, Rook, Black); (58, Bishop, Black); (35, Pawn, Black)].

(* the engine's labelled candidate list (enumerate_candidate_moves_with_algebraic_notation) *)
Definition labels (b : board) : res (list (cmove * string)) :=
  let* (cands, b1) := gen_annotated example_table rook_ref bishop_ref b (turn b) in
  san_all b1 (map fst cands) cands.

Fixpoint nodup_strb (l : list string) : bool :=
  match l with
  | [] => true
  | s :: r => negb (existsb (String.eqb s) r) && nodup_strb r
  end.

(* the generated candidates satisfy every hypothesis, the labels are the spec's labels, and
   they are pairwise distinct *)
Definition labels_checked (b : board) : bool :=
  match gen_annotated example_table rook_ref bishop_ref b (turn b) with
  | Ok (cands, b1) =>
      let all := map fst cands in
      position_likeb b1 all && repr_ok b1 &&
      match san_all b1 all cands with
      | Ok r =>
          nodup_strb (map snd r)
          && forallb (fun x => String.eqb (snd (fst x))
                                 (spec_label (abstract b1) all (fst (snd x)) (snd (snd x))))
                     (combine r cands)
          && (length r =? length cands)%nat
      | _ => false
      end
  | _ => false
  end.

Example three_knights_labels :
  labels three_knights = Ok
    [(Std 9 3 None, "Nd1"); (Std 9 19 None, "N2d3"); (Std 9 24 None, "Na4"); (Std 9 26 None, "Nc4");
     (Std 25 8 None, "Na2"); (Std 25 10 None, "Nc2"); (Std 25 19 None, "Nb4d3"); (Std 25 35 None, "Nbd5");
     (Std 25 40 None, "Na6"); (Std 25 42 None, "Nc6"); (Std 29 12 None, "Ne2"); (Std 29 14 None, "Ng2");
     (Std 29 19 None, "Nfd3"); (Std 29 23 None, "Nh3"); (Std 29 35 None, "Nfd5"); (Std 29 39 None, "Nh5");
     (Std 29 44 None, "Ne6"); (Std 29 46 None, "Ng6"); (Std 4 3 None, "Kd1"); (Std 4 5 None, "Kf1");
     (Std 4 11 None, "Kd2"); (Std 4 12 None, "Ke2"); (Std 4 13 None, "Kf2")].
Proof. vm_compute. reflexivity. Qed.

Example three_knights_checked : labels_checked three_knights = true.
Proof. vm_compute. reflexivity. Qed.

Example knights_no_shared_checked : labels_checked knights_no_shared = true.
Proof. vm_compute. reflexivity. Qed.

Example busy_checked : labels_checked busy = true.
Proof. vm_compute. reflexivity. Qed.

Example knights_no_shared_labels :
  labels knights_no_shared = Ok
    [(Std 1 11 None, "Nbd2"); (Std 1 16 None, "Na3"); (Std 1 18 None, "Nc3"); (Std 21 6 None, "Ng1");
     (Std 21 11 None, "Nfd2"); (Std 21 15 None, "Nh2"); (Std 21 27 None, "Nd4"); (Std 21 31 None, "Nh4");
     (Std 21 36 None, "Ne5"); (Std 21 38 None, "Ng5"); (Std 4 3 None, "Kd1"); (Std 4 5 None, "Kf1");
     (Std 4 11 None, "Kd2"); (Std 4 12 None, "Ke2"); (Std 4 13 None, "Kf2")].
Proof. vm_compute. reflexivity. Qed.

Example busy_labels_sample :
  match labels busy with
  | Ok r => map snd (filter (fun x => existsb (cmove_eqb (fst x))
               [Std 17 11 None; Std 21 11 None; Std 7 6 None; Promo 49 57 None Queen;
                Promo 49 58 (Some Bishop) Rook; Std 34 42 None; EnPassant 34 43; EnPassant 36 43;
                Castle 4 6; Castle 4 2]) r)
            = ["Nbd2"; "Nfd2"; "Rg1+"; "b8=Q"; "bxc8=R+"; "c6"; "cxd6"; "exd6"; "O-O"; "O-O-O"]
  | _ => False
  end.
Proof. vm_compute. reflexivity. Qed.

(* non-vacuity of san_matches_spec / san_labels_nodup / san_c13: their hypotheses hold for
   the generated candidates of `busy` (52 moves: castles, en passant, promotions, rivals) *)
Lemma existsb_cmove_in : forall m l, existsb (cmove_eqb m) l = true -> In m l.
Proof.
  intros m l H. apply existsb_exists in H. destruct H as [x [Hx Hmx]].
  assert (m = x).
  { destruct m as [f t c | f t c pp | f t | f t]; destruct x as [f' t' c' | f' t' c' pp' | f' t' | f' t'];
      try discriminate Hmx; cbn [cmove_eqb] in Hmx; rewrite !andb_true_iff in Hmx.
    - destruct Hmx as [[Hf Ht] Hc]. apply N.eqb_eq in Hf, Ht. apply opt_piece_eqb_eq in Hc.
      subst. reflexivity.
    - destruct Hmx as [[[Hf Ht] Hc] Hp]. apply N.eqb_eq in Hf, Ht. apply opt_piece_eqb_eq in Hc.
      apply piece_eqb_eq in Hp. subst. reflexivity.
    - destruct Hmx as [Hf Ht]. apply N.eqb_eq in Hf, Ht. subst. reflexivity.
    - destruct Hmx as [Hf Ht]. apply N.eqb_eq in Hf, Ht. subst. reflexivity. }
  subst x. exact Hx.
Qed.

Example c13_hypotheses_satisfiable :
  exists cands b1,
    gen_annotated example_table rook_ref bishop_ref busy (turn busy) = Ok (cands, b1)
    /\ cands_fit b1 (map fst cands) /\ one_king_origin b1 (map fst cands)
    /\ all_quiet_pawns_unrivalled b1 (map fst cands) /\ legal_like b1 (map fst cands)
    /\ length cands = 52%nat /\ In (Castle 4 2) (map fst cands) /\ In (EnPassant 36 43) (map fst cands).
Proof.
  eexists. eexists. split; [vm_compute; reflexivity|].
  match goal with
  | |- cands_fit ?b ?all /\ _ =>
      assert (H1 : position_likeb b all = true) by (vm_compute; reflexivity);
      destruct (position_likeb_spec b all H1) as [A [B [C D]]]
  end.
  repeat (split; [assumption|]).
  split; [vm_compute; reflexivity|].
  split; apply existsb_cmove_in; vm_compute; reflexivity.
Qed.

(* non-vacuity of render_inj / dis_separates *)
Example render_example :
  render (SMove {| sl_piece := Knight; sl_dis := DSq 25; sl_cap := true; sl_dest := 19;
                   sl_promo := None; sl_sfx := SMate |}) = "Nb4xd3#"
  /\ render (SMove {| sl_piece := Pawn; sl_dis := DFile 1; sl_cap := true; sl_dest := 58;
                      sl_promo := Some Rook; sl_sfx := SCheck |}) = "bxc8=R+"
  /\ render (SCastle false SCheck) = "O-O-O+".
Proof. vm_compute. auto. Qed.

Example dis_separates_example :
  let amb1 := [Std 21 11 None] in   (* the rival of Nb1-d2 *)
  let amb2 := [Std 1 11 None] in    (* the rival of Nf3-d2 *)
  dis_struct Knight 1 false amb1 = DFile 1 /\ dis_struct Knight 21 false amb2 = DFile 5
  /\ In (Std 21 11 None) amb1 /\ In (Std 1 11 None) amb2.
Proof. vm_compute. auto. Qed.

Print Assumptions san_matches_spec.
Print Assumptions san_label_no_panic.
Print Assumptions san_all_matches_spec.
Print Assumptions san_label_structured.
Print Assumptions render_inj.
Print Assumptions dis_separates.
Print Assumptions san_labels_nodup.
Print Assumptions san_all_labels_nodup.
Print Assumptions san_c13.
