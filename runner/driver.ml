(* driver.ml — replays the operation lines of a scenario on the extracted Rocq model and
   prints the model's observation for each ("< ..."), plus "! SPEC ..." lines wherever the
   model's answer differs from the spec layer (v / spec_label / key_of).
   Hand-written glue: parsing, printing, conversions between OCaml ints and the extracted
   inductive numbers.  Usage: runner <zobrist-file> < scenario > observations *)
open Model

(* ---------- numbers ---------- *)
let rec pos_of_u64 (x : int64) : positive =
  let lsb = Int64.logand x 1L = 1L in
  let rest = Int64.shift_right_logical x 1 in
  if rest = 0L then XH else if lsb then XI (pos_of_u64 rest) else XO (pos_of_u64 rest)
let n_of_u64 (x : int64) : n = if x = 0L then N0 else Npos (pos_of_u64 x)
let rec u64_of_pos = function
  | XH -> 1L
  | XO p -> Int64.shift_left (u64_of_pos p) 1
  | XI p -> Int64.logor (Int64.shift_left (u64_of_pos p) 1) 1L
let u64_of_n = function N0 -> 0L | Npos p -> u64_of_pos p
let n_of_int (i : int) : n = n_of_u64 (Int64.of_int i)
let int_of_n (x : n) : int = Int64.to_int (u64_of_n x)
let int_of_z = function Z0 -> 0 | Zpos p -> Int64.to_int (u64_of_pos p) | Zneg p -> - (Int64.to_int (u64_of_pos p))
let rec nat_of_int i = if i <= 0 then O else S (nat_of_int (i - 1))
let u64_of_decimal (s : string) : int64 = Scanf.sscanf s "%Lu" (fun x -> x)

let chars_of_string s = List.init (String.length s) (String.get s)
let string_of_chars l = String.init (List.length l) (List.nth l)

(* ---------- text formats ---------- *)
let sqname i = Printf.sprintf "%c%c" (Char.chr (97 + i mod 8)) (Char.chr (49 + i / 8))
let parse_sq s = (Char.code s.[0] - 97) + 8 * (Char.code s.[1] - 49)
let pletter = function Pawn -> 'P' | Knight -> 'N' | Bishop -> 'B' | Rook -> 'R' | Queen -> 'Q' | King -> 'K'
let parse_pletter c = match Char.uppercase_ascii c with
  | 'P' -> Pawn | 'N' -> Knight | 'B' -> Bishop | 'R' -> Rook | 'Q' -> Queen | 'K' -> King
  | _ -> failwith "piece letter"
let pchar p c = if c = White then pletter p else Char.lowercase_ascii (pletter p)
let parse_pchar ch = (parse_pletter ch, if Char.uppercase_ascii ch = ch then White else Black)

let mv_text (m : cmove) : string =
  let s i = sqname (int_of_n i) in
  match m with
  | Std (f, t, None) -> Printf.sprintf "S%s%s" (s f) (s t)
  | Std (f, t, Some c) -> Printf.sprintf "S%s%sx%c" (s f) (s t) (pletter c)
  | Promo (f, t, None, pp) -> Printf.sprintf "P%s%s=%c" (s f) (s t) (pletter pp)
  | Promo (f, t, Some c, pp) -> Printf.sprintf "P%s%sx%c=%c" (s f) (s t) (pletter c) (pletter pp)
  | EnPassant (f, t) -> Printf.sprintf "E%s%s" (s f) (s t)
  | Castle (f, t) -> Printf.sprintf "C%s%s" (s f) (s t)

let parse_mv (s : string) : cmove =
  let f = n_of_int (parse_sq (String.sub s 1 2)) and t = n_of_int (parse_sq (String.sub s 3 2)) in
  let rest = String.sub s 5 (String.length s - 5) in
  let cap, rest =
    if String.length rest > 0 && rest.[0] = 'x' then (Some (parse_pletter rest.[1]), String.sub rest 2 (String.length rest - 2))
    else (None, rest) in
  match s.[0] with
  | 'S' -> Std (f, t, cap)
  | 'P' -> Promo (f, t, cap, parse_pletter rest.[1])
  | 'E' -> EnPassant (f, t)
  | 'C' -> Castle (f, t)
  | _ -> failwith ("move text " ^ s)

(* ---------- Zobrist table of the current build (read black-box by the harness) ---------- *)
let zp_arr = Array.make (6 * 64 * 2) N0
let zc_arr = Array.make 16 N0
let ze_arr = Array.make 65 N0
let load_zobrist path =
  let ic = open_in path in
  (try
     while true do
       let l = input_line ic in
       match String.split_on_char ' ' l with
       | [ "zp"; p; s; c; v ] -> zp_arr.((int_of_string p * 64 + int_of_string s) * 2 + int_of_string c) <- n_of_u64 (u64_of_decimal v)
       | [ "zc"; r; v ] -> zc_arr.(int_of_string r) <- n_of_u64 (u64_of_decimal v)
       | [ "ze"; s; v ] -> ze_arr.(int_of_string s) <- n_of_u64 (u64_of_decimal v)
       | _ -> ()
     done
   with End_of_file -> ());
  close_in ic
let pidx = function Pawn -> 0 | Knight -> 1 | Bishop -> 2 | Rook -> 3 | Queen -> 4 | King -> 5
let cidx = function Black -> 0 | White -> 1
let tbl : ztable =
  { zp = (fun p i c -> let i = int_of_n i in if i < 64 then zp_arr.((pidx p * 64 + i) * 2 + cidx c) else N0);
    zc = (fun r -> let r = int_of_n r in if r < 16 then zc_arr.(r) else N0);
    ze = (fun s -> let s = int_of_n s in if s < 65 then ze_arr.(s) else N0) }

(* sliders: the ray-walk reference (= the magic lookup under C11's theorem) *)
let rk = rook_ref
let bs = bishop_ref

let magic_rk = lazy (magic_rook rOOK_ENTRIES)
let magic_bs = lazy (magic_bishop bISHOP_ENTRIES)

(* ---------- model state ---------- *)
let board : board option ref = ref (Some board_new)      (* None after a Panic *)
let stack : cmove list ref = ref []
let game : game option ref = ref None
let hist : string list ref = ref []
let sdepth : int ref = ref 1

(* the implementation's observation printed under the operation being executed (ops whose model
   answer validates what the implementation chose rather than predicting it: `watch`) *)
let next_obs : string option ref = ref None

let out = Buffer.create 65536
let emit s = Buffer.add_string out s; Buffer.add_char out '\n'
let obs s = emit ("< " ^ s)
let spec_fail s = emit ("! SPEC " ^ s)

let with_board (f : board -> string) : string =
  match !board with None -> "PANIC" | Some b -> f b

let cells_string (get : int -> (piece * color) option) =
  String.init 64 (fun i -> match get i with Some (p, c) -> pchar p c | None -> '.')

let snap_of (b : board) : string =
  let cells = cells_string (fun i -> bget b (n_of_int i)) in
  let r x = match x with Ok v -> Some v | _ -> None in
  match r (peek_rights b), r (peek_ep b), r (halfmove b), r (max_seen b) with
  | Some rights, Some ep, Some hm, Some seen ->
      let eps = if ep = N0 then "-" else sqname (int_of_n (List.hd (bits_of ep))) in
      Printf.sprintf "snap %s %c %d %s %d %d %016Lx %d" cells (if b.turn = White then 'w' else 'b')
        (int_of_n rights) eps (int_of_n hm) (int_of_n b.fullmove) (u64_of_n b.hash) (int_of_n seen)
  | _ -> "PANIC"

let stacks_of (b : board) : string =
  let buf = Buffer.create 256 in
  Buffer.add_string buf "stacks ep";
  let rec eps b = match pop_ep tbl b with
    | Ok (v, b') -> Buffer.add_string buf (" " ^ (if v = N0 then "-" else sqname (int_of_n (List.hd (bits_of v))))); eps b'
    | _ -> () in
  eps b;
  Buffer.add_string buf " cr";
  let rec crs b = match pop_rights tbl b with
    | Ok b' -> (match peek_rights b' with Ok v -> Buffer.add_string buf (Printf.sprintf " %d" (int_of_n v)) | _ -> ()); crs b'
    | _ -> () in
  crs b;
  Buffer.add_string buf " hm";
  let rec hms b = match halfmove b, pop_halfmove b with
    | Ok v, Ok b' -> Buffer.add_string buf (Printf.sprintf " %d" (int_of_n v)); hms b'
    | _ -> () in
  hms b;
  Buffer.contents buf

let bbs_of (b : board) : string =
  let buf = Buffer.create 256 in
  Buffer.add_string buf "bbs";
  List.iter (fun c ->
      let s = pieces b c in
      List.iter (fun p -> Buffer.add_string buf (Printf.sprintf " %Lx" (u64_of_n (locate s p)))) [ Pawn; Knight; Bishop; Rook; Queen; King ];
      Buffer.add_string buf (Printf.sprintf " %Lx" (u64_of_n s.occ))) [ White; Black ];
  Buffer.add_string buf (Printf.sprintf " %Lx" (u64_of_n (occupied b)));
  Buffer.contents buf

let moves_text ms = String.concat " " (List.map mv_text ms)
let sorted_moves ms = List.sort compare (List.map mv_text ms)

let effect_char = function ENone -> '-' | ECheck -> '+' | ECheckmate -> '#' | ENotYet -> '?'

(* invariants of the model state at every node where a generator is consulted *)
let check_inv (b : board) =
  if not (repr_ok b) then spec_fail ("C12 representation invariant fails in [" ^ snap_of b ^ "]")

let gen_model b = match gen_moves tbl rk bs b b.turn with Ok (ms, _) -> Some ms | _ -> None

(* the decidable hypotheses of the property theorems (Inv, move_ok, gen_shape, fits, counters_ok),
   evaluated on every state at which a generator-level observation is made: a state outside
   them is outside the domain the theorems cover and is reported *)
let hyp_seen : (string, unit) Hashtbl.t = Hashtbl.create 4096
let check_hyp (b : board) =
  let id = snap_of b in
  if not (Hashtbl.mem hyp_seen id) then begin
    Hashtbl.replace hyp_seen id ();
    if not (invb rk bs b) then spec_fail ("HYP invb (reachable-state invariant Inv of InvProofs2) is false in [" ^ id ^ "]");
    if not (counters_okb b) then spec_fail ("HYP counters_okb (SuccProofs) is false in [" ^ id ^ "]");
    if not (legal_materialb b.white && legal_materialb b.black) then spec_fail ("HYP legal_materialb (EvalProofs2) is false in [" ^ id ^ "]");
    (match gen_model b with
     | Some ms ->
         List.iter (fun m ->
             if not (move_okb b m) then spec_fail (Printf.sprintf "HYP move_okb (SuccProofs) is false for generated move %s in [%s]" (mv_text m) id);
             if not (gen_shapeb b m) then spec_fail (Printf.sprintf "HYP gen_shapeb (InvProofs) is false for generated move %s in [%s]" (mv_text m) id);
             if not (fitsb b m) then spec_fail (Printf.sprintf "HYP fitsb (UciProofs) is false for generated move %s in [%s]" (mv_text m) id)) ms;
         if not (position_likeb b ms) then spec_fail ("HYP position_likeb (SanProofs) is false in [" ^ id ^ "]")
     | None -> ())
  end

let do_gen tag (b : board) : string =
  check_inv b; check_hyp b;
  match gen_model b with
  | None -> "PANIC"
  | Some ms ->
      (* spec: exactly the legal moves of the rules, no duplicates *)
      let legal = legal_moves (abstract b) in
      let a = sorted_moves ms and e = sorted_moves legal in
      if a <> e then spec_fail (Printf.sprintf "C01 model gen differs from rules in [%s]: model {%s} rules {%s}" (snap_of b) (String.concat " " a) (String.concat " " e));
      tag ^ " " ^ moves_text ms

let att_of b = (attack_targets rk bs b White, attack_targets rk bs b Black)

(* spec attack map: squares attacked by colour c, minus squares holding c's own pieces
   that are not attacked by a c pawn (the engine's map omits own-occupied squares for
   every piece except pawns) — only used to cross-check the king squares *)
let do_att b =
  let aw, ab = att_of b in
  Printf.sprintf "att %Lx %Lx" (u64_of_n aw) (u64_of_n ab)

let ending_char = function Some Checkmate -> 'C' | Some Stalemate -> 'S' | Some Draw -> 'D' | None -> '-'

let do_verdict tag b =
  check_hyp b;
  let t = b.turn in
  let chk = in_check rk bs b t in
  match gen_model b, game_ending tbl rk bs b t with
  | Some ms, Ok (e, _) ->
      let mate = chk && ms = [] in
      (* spec, on the decided domain (no count-based draw fires) *)
      let p = abstract b in
      let rchk = king_attacked p t in
      if rchk <> chk then spec_fail ("C06 in-check verdict differs from rules in [" ^ snap_of b ^ "]");
      (match e with
       | Some Draw -> ()
       | _ ->
           let want = if is_checkmate p t then Some Checkmate else if is_stalemate p t then Some Stalemate else None in
           if want <> e then spec_fail ("C06 game-ending verdict differs from rules in [" ^ snap_of b ^ "]"));
      if (is_checkmate p t) <> mate then spec_fail ("C06 checkmate verdict differs from rules in [" ^ snap_of b ^ "]");
      Printf.sprintf "%s %d %d %c" tag (if chk then 1 else 0) (if mate then 1 else 0) (ending_char e)
  | _ -> "PANIC"

let do_effects tag b =
  check_hyp b;
  match gen_annotated tbl rk bs b b.turn with
  | Ok (l, _) ->
      let p = abstract b in
      List.iter (fun (m, e) ->
          let want = move_effect p b.turn m in
          if want <> e then spec_fail (Printf.sprintf "C06 annotation of %s differs from rules in [%s]" (mv_text m) (snap_of b))) l;
      tag ^ String.concat "" (List.map (fun (m, e) -> Printf.sprintf " %s:%c" (mv_text m) (effect_char e)) l)
  | _ -> "PANIC"

let do_san b =
  check_hyp b;
  match gen_annotated tbl rk bs b b.turn with
  | Ok (l, b1) ->
      (match san_all b1 (List.map fst l) l with
       | Ok labelled ->
           let p = abstract b in
           let legal = List.map fst l in
           let labels = List.map (fun (_, s) -> string_of_chars s) labelled in
           List.iter2 (fun (m, e) lab ->
               let want = string_of_chars (spec_label p legal m e) in
               if want <> lab then spec_fail (Printf.sprintf "C13 label of %s is %s, standard notation is %s in [%s]" (mv_text m) lab want (snap_of b))) l labels;
           let sorted = List.sort compare labels in
           let rec dup = function a :: (b :: _ as r) -> if a = b then Some a else dup r | _ -> None in
           (match dup sorted with Some d -> spec_fail (Printf.sprintf "C13 two legal moves share the label %s in [%s]" d (snap_of b)) | None -> ());
           "san" ^ String.concat "" (List.map2 (fun (m, _) lab -> Printf.sprintf " %s:%s" (mv_text m) lab) l labels)
       | _ -> "PANIC")
  | _ -> "PANIC"

let do_uci b =
  check_hyp b;
  match gen_model b with
  | None -> "PANIC"
  | Some ms ->
      let texts = List.map (fun m -> match to_uci m with Ok s -> string_of_chars s | _ -> "PANIC") ms in
      let sorted = List.sort compare texts in
      let rec dup = function a :: (b :: _ as r) -> if a = b then Some a else dup r | _ -> None in
      (match dup sorted with Some d -> spec_fail (Printf.sprintf "C19 two legal moves share the text %s in [%s]" d (snap_of b)) | None -> ());
      "uci" ^ String.concat "" (List.map2 (fun m u ->
          let back = match from_uci b (chars_of_string u) with Ok m' -> mv_text m' | _ -> "PANIC" in
          (* spec: standard long coordinate form, and the round trip is the identity *)
          let f = sqname (int_of_n (mv_from m)) and t = sqname (int_of_n (mv_to m)) in
          let want = f ^ t ^ (match m with Promo (_, _, _, pp) -> String.make 1 (Char.lowercase_ascii (pletter pp)) | _ -> "") in
          if want <> u then spec_fail (Printf.sprintf "C19 text of %s is %s, standard is %s" (mv_text m) u want);
          if back <> mv_text m then spec_fail (Printf.sprintf "C19 reading %s back gives %s, not %s, in [%s]" u back (mv_text m) (snap_of b));
          Printf.sprintf " %s:%s:%s" (mv_text m) u back) ms texts)

let setup_pos (line : string) : board option =
  match String.split_on_char ' ' line with
  | [ cells; turn; rights; ep; half; full ] ->
      let b = ref (Some board_new) in
      let step f = match !b with Some x -> (match f x with Ok y -> b := Some y | _ -> b := None) | None -> () in
      String.iteri (fun i ch -> if ch <> '.' then let (p, c) = parse_pchar ch in step (fun x -> put tbl x (n_of_int i) p c)) cells;
      step (fun x -> Ok (set_turn x (if turn = "w" then White else Black)));
      step (fun x -> lose_rights tbl x (n_of_int (15 land (lnot (int_of_string rights)))));
      if ep <> "-" then step (fun x -> push_ep tbl x (n_of_u64 (Int64.shift_left 1L (parse_sq ep))));
      step (fun x -> Ok (push_halfmove x (n_of_int (int_of_string half))));
      step (fun x -> Ok (set_fullmove x (n_of_int (int_of_string full))));
      !b
  | _ -> failwith ("pos line " ^ line)

let key_spec b =
  (* C05: the incrementally maintained key equals the history-free XOR of the position *)
  let k = key_of tbl (abstract b) in
  if k <> b.hash then spec_fail (Printf.sprintf "C05 model key %016Lx differs from key_of %016Lx in [%s]" (u64_of_n b.hash) (u64_of_n k) (snap_of b))

let game_snap (g : game) = Printf.sprintf "%s | hist %s" (snap_of g.gboard) (String.concat " " (List.rev !hist))

(* cumulative perft of the rules (move sequences of lengths 1..d+1), remembered per position and ply:
   the same position is counted under several pool sizes and depths *)
(* the oracle of a search depends on the position (clocks and repetition top included: all in the
   snapshot) and the depth only: the same position is searched under many pools and schedules *)
let search_memo : (string * int, (cmove * z) list res) Hashtbl.t = Hashtbl.create 256
let perft_memo : (string * int, int) Hashtbl.t = Hashtbl.create 256
let perft_total (b : board) (d : int) : int =
  let id = snap_of b in
  let p = abstract b in
  let total = ref 0 in
  for k = 1 to d + 1 do
    let v = match Hashtbl.find_opt perft_memo (id, k) with
      | Some v -> v
      | None -> let v = int_of_n (perft (nat_of_int k) p) in Hashtbl.replace perft_memo (id, k) v; v in
    total := !total + v
  done;
  !total

let exec (op : string) : unit =
  emit op;
  let toks = List.filter (fun s -> s <> "") (String.split_on_char ' ' op) in
  let upd (f : board -> board res) (okmsg : board -> string) : string =
    match !board with
    | None -> "PANIC"
    | Some b -> (match f b with
        | Ok b' -> board := Some b'; okmsg b'
        | Err _ -> "ERR"
        | Panic -> board := None; "PANIC") in
  let r = match toks with
    | [ "new" ] -> board := Some board_new; stack := []; "ok"
    | "pos" :: _ ->
        let line = String.sub op 4 (String.length op - 4) in
        board := setup_pos line; stack := [];
        (match !board with Some _ -> "ok" | None -> "PANIC")
    | [ "put"; s; pc ] ->
        let (p, c) = parse_pchar pc.[0] in
        upd (fun b -> put tbl b (n_of_int (parse_sq s)) p c) (fun _ -> "ok")
    | [ "remove"; s ] ->
        with_board (fun b -> match bremove tbl b (n_of_int (parse_sq s)) with
            | Some ((p, c), b') -> board := Some b'; Printf.sprintf "removed %c" (pchar p c)
            | None -> "none")
    | [ "lose"; m ] ->
        upd (fun b -> lose_rights tbl b (n_of_int (int_of_string m)))
          (fun b' -> match peek_rights b' with Ok v -> Printf.sprintf "rights %d" (int_of_n v) | _ -> "PANIC")
    | [ "poprights" ] ->
        upd (fun b -> pop_rights tbl b)
          (fun b' -> match peek_rights b' with Ok v -> Printf.sprintf "rights %d" (int_of_n v) | _ -> "PANIC")
    | [ "pushep"; s ] ->
        let t = if s = "-" then N0 else n_of_u64 (Int64.shift_left 1L (parse_sq s)) in
        upd (fun b -> push_ep tbl b t) (fun _ -> "ok")
    | [ "popep" ] ->
        with_board (fun b -> match pop_ep tbl b with
            | Ok (v, b') -> board := Some b'; Printf.sprintf "ep %s" (if v = N0 then "-" else sqname (int_of_n (List.hd (bits_of v))))
            | _ -> board := None; "PANIC")
    | [ "toggle" ] -> upd (fun b -> Ok (toggle_turn b)) (fun _ -> "ok")
    | "sync" :: _ ->
        let line = String.sub op 5 (String.length op - 5) in
        board := setup_pos line;
        (match !board with Some _ -> "ok" | None -> "PANIC")
    | [ "inv" ] -> with_board (fun b -> check_inv b; "inv ok")
    | [ "flipmat" ] ->
        with_board (fun b ->
            let cells = cells_string (fun i -> bget b (n_of_int i)) in
            let flipped = String.init 64 (fun i ->
                let ch = cells.[63 - i] in
                if ch = '.' then ch else if Char.uppercase_ascii ch = ch then Char.lowercase_ascii ch else Char.uppercase_ascii ch) in
            let line = Printf.sprintf "%s %c 0 - 0 1" flipped (if b.turn = White then 'b' else 'w') in
            match setup_pos line with
            | Some fb ->
                (match material_score b, material_score fb with
                 | Ok a, Ok f -> Printf.sprintf "flipmat %d %d" (int_of_z a) (int_of_z f)
                 | _ -> "PANIC")
            | None -> "PANIC")
    | [ "apply"; ms ] ->
        let m = parse_mv ms in
        stack := m :: !stack;
        (match !board with
         | None -> "PANIC"
         | Some b ->
             (match apply_move tbl m b with
              | Ok b' ->
                  (* C03: the rules' successor *)
                  let want = successor (abstract b) m and got = abstract b' in
                  if want <> got then spec_fail (Printf.sprintf "C03 model successor of %s differs from rules in [%s]" ms (snap_of b));
                  board := Some b'; "ok"
              | Err _ -> "ERR"
              | Panic -> board := None; "PANIC"))
    | [ "undo" ] ->
        (match !stack with
         | [] -> "nothing"
         | m :: rest ->
             stack := rest;
             upd (fun b -> undo_move tbl m b) (fun _ -> "ok"))
    | [ "count" ] ->
        with_board (fun b -> match count_position b with
            | Ok (v, b') -> board := Some b'; Printf.sprintf "count %d" (int_of_n v)
            | _ -> board := None; "PANIC")
    | [ "uncount" ] ->
        with_board (fun b -> match uncount_position b with
            | Ok (v, b') -> board := Some b'; Printf.sprintf "count %d" (int_of_n v)
            | _ -> board := None; "PANIC")
    | [ "snap" ] -> with_board (fun b -> key_spec b; snap_of b)
    | [ "stacks" ] -> with_board stacks_of
    | [ "bbs" ] -> with_board (fun b -> check_inv b; bbs_of b)
    | [ "gen" ] -> with_board (do_gen "gen")
    | [ "genl" ] ->
        with_board (fun b ->
            let aw, ab = att_of b in
            match gen_model b with
            | Some ms -> Printf.sprintf "genl %Lx %Lx %s" (u64_of_n aw) (u64_of_n ab) (moves_text ms)
            | None -> "PANIC")
    | [ "att" ] -> with_board do_att
    | [ "verdict" ] -> with_board (do_verdict "verdict")
    | [ "verdictl" ] -> with_board (do_verdict "verdictl")
    | [ "effects" ] -> with_board (do_effects "effects")
    | [ "effectsl" ] -> with_board (do_effects "effectsl")
    | [ "san" ] -> with_board do_san
    | [ "uci" ] -> with_board do_uci
    | [ "mat" ] -> with_board (fun b -> match material_score b with Ok z -> Printf.sprintf "mat %d" (int_of_z z) | _ -> "PANIC")
    | [ "score"; d ] ->
        with_board (fun b -> match score tbl rk bs b b.turn (n_of_int (int_of_string d)) with
            | Ok (z, _) -> Printf.sprintf "score %s %d" d (int_of_z z)
            | _ -> "PANIC")
    | [ "clearlong" ] -> "ok"
    | [ "key" ] -> with_board (fun b -> key_spec b; Printf.sprintf "key %016Lx" (u64_of_n b.hash))
    | [ "sctx"; d ] -> sdepth := int_of_string d; "ok"
    | [ "attl"; _ ] -> "SKIP"    (* long-lived vs cache-cleared attack map, decided by the harness *)
    | [ "genlx" ] -> "SKIP"      (* long-lived vs cache-cleared generator, decided by the harness *)
    | "searchx" :: _ -> "SKIP"   (* decided by the harness against its own plain minimax *)
    | ("search" | "sched") :: _ ->
        (* oracle: exact minimax; the implementation's (score, move) is checked against
           `=search` by the comparer: score equal, move among the moves attaining it *)
        with_board (fun b ->
            let tag = List.hd toks in
            if !sdepth < 1 then tag ^ " Err DepthTooLow"
            else begin
            (* the hypothesis of the closed search theorems: SoundW (ReachWide: C07_wide, C08_wide,
               root_values_ab_eq_wide) for the cache-free statements, SoundC = SoundW and no third
               repetition recorded (ClosedWide: C09_wide, the cached / parallel statements) *)
            let inw = soundWb tbl rk bs (nat_of_int !sdepth) b in
            if not inw then
              spec_fail (Printf.sprintf "DOMAIN soundWb %d (search invariant ReachWide.SoundW of the closed theorems) is false in [%s]: compared with the oracle all the same" !sdepth (snap_of b))
            else if not (soundCb tbl rk bs (nat_of_int !sdepth) b) then
              spec_fail (Printf.sprintf "DOMAINC soundCb %d (ClosedWide.SoundC, the domain of the cache / schedule theorems) is false in [%s]" !sdepth (snap_of b));
            (* depth >= 3 inside the wide domain: full-window alpha-beta per root move, equal to the plain
               minimax list by ReachWide.root_values_ab_eq_wide (pinned in props/C08.v); otherwise the
               plain minimax itself *)
            let rv () = if !sdepth >= 3 && inw then root_values_ab tbl rk bs (nat_of_int !sdepth) b
                        else root_values tbl rk bs (nat_of_int !sdepth) b in
            let rv = match Hashtbl.find_opt search_memo (snap_of b, !sdepth) with
              | Some r -> r
              | None -> let r = rv () in Hashtbl.replace search_memo (snap_of b, !sdepth) r; r in
            match rv with
              | Ok [] -> tag ^ " Err NoAvailableMoves"
              | Ok vs ->
                  let vals = List.map (fun (_, v) -> int_of_z v) vs in
                  let best = if b.turn = White then List.fold_left max min_int vals else List.fold_left min max_int vals in
                  let att = List.filter (fun (_, v) -> int_of_z v = best) vs in
                  Printf.sprintf "%s Ok %d {%s} {%s}" tag best (String.concat " " (List.sort compare (List.map (fun (m, _) -> mv_text m) att)))
                    (String.concat " " (List.sort compare (List.map (fun (m, _) -> mv_text m) vs)))
              | _ -> "PANIC"
            end)
    | "perft2" :: d :: _ ->
        with_board (fun b ->
            let d = int_of_string d in
            let total = perft_total b d in
            Printf.sprintf "perft2 %d %d %d" d total total)
    | "perft" :: d :: _ ->
        with_board (fun b ->
            let d = int_of_string d in
            Printf.sprintf "perft %d %d" d (perft_total b d))
    | "book" :: line ->
        let h = List.map (fun t -> (n_of_int (parse_sq (String.sub t 0 2)), n_of_int (parse_sq (String.sub t 2 2)))) line in
        let next = book_next bOOK h in
        "book " ^ String.concat " " (List.sort compare (List.map (fun (f, t) -> sqname (int_of_n f) ^ sqname (int_of_n t)) next))
    | [ "game"; d ] ->
        with_board (fun b -> game := Some { gboard = b; ghist = []; gdepth = n_of_int (int_of_string d) }; hist := []; "ok")
    | [ "gnew"; d ] ->
        (match setup_pos "RNBQKBNRPPPPPPPP................................pppppppprnbqkbnr w 15 - 0 1" with
         | Some b ->
             (* Board::starting_position(): puts only (no rights/ep/clock pushes) *)
             let b0 = ref board_new in
             String.iteri (fun i ch -> if ch <> '.' then let (p, c) = parse_pchar ch in
                             match put tbl !b0 (n_of_int i) p c with Ok y -> b0 := y | _ -> ())
               "RNBQKBNRPPPPPPPP................................pppppppprnbqkbnr";
             ignore b;
             game := Some { gboard = !b0; ghist = []; gdepth = n_of_int (int_of_string d) }; hist := []; "ok"
         | None -> "PANIC")
    | [ "clicount"; d ] ->
        (* `chess count-positions --depth d`: for k = 1..d the cumulative number of move sequences of
           lengths 1..k+1 from the standard starting position, by the rules' perft *)
        let d = int_of_string d in
        let p = initial_position in
        let per = Array.init (d + 2) (fun k -> if k = 0 then 0 else int_of_n (perft (nat_of_int k) p)) in
        let cum k = let t = ref 0 in for j = 1 to k + 1 do t := !t + per.(j) done; !t in
        let items = List.init d (fun i -> Printf.sprintf "%d:%d" (i + 1) (cum (i + 1))) in
        let total = List.fold_left (+) 0 (List.init d (fun i -> cum (i + 1))) in
        Printf.sprintf "clicount %d %s total:%d" d (String.concat " " items) total
    | ("pvp" | "watch" | "play") :: _ when (match !next_obs with Some o -> o = "pvp unparsed" || o = "watch unparsed" || o = "play unparsed" | None -> false) -> "SKIP"
    | [ "play"; d; col; script ] ->
        (* the human-vs-computer loop: the model follows the moves the loop printed.  On the human's turns
           the typed lines are consumed one by one through the extracted input layer (Pvp.parse_input /
           exec_command) until one is accepted: that move must be the one printed ("-" is printed for a
           move entered by coordinates: the engine's display looks the move up with its annotation).
           On the engine's turns the printed label must be the notation of a legal move (C15).  A line
           the model accepts must have been played; the loop stops only on checkmate / stalemate. *)
        let inputs = ref (String.split_on_char '|' script) in
        let player = if col = "w" then White else Black in
        let b0 = ref board_new in
        String.iteri (fun i ch -> if ch <> '.' then let (p, c) = parse_pchar ch in
                        match put tbl !b0 (n_of_int i) p c with Ok y -> b0 := y | _ -> ())
          "RNBQKBNRPPPPPPPP................................pppppppprnbqkbnr";
        let g = ref { gboard = !b0; ghist = []; gdepth = n_of_int (int_of_string d) } in
        let impl = match !next_obs with Some o -> o | None -> "" in
        (match List.filter (fun x -> x <> "") (String.split_on_char ' ' impl) with
         | "play" :: iend :: moves ->
             let ok = ref true in
             let pass (g1 : game) = { g1 with gboard = toggle_turn g1.gboard } in
             let over (gm : game) = match game_ending tbl rk bs gm.gboard gm.gboard.turn with
               | Ok (Some Checkmate, _) -> Some "checkmate" | Ok (Some Stalemate, _) -> Some "stalemate" | _ -> None in
             (* the human's next accepted line, if any *)
             let rec human_move () = match !inputs with
               | [] -> None
               | l :: rest ->
                   inputs := rest;
                   (match parse_input (chars_of_string l) with
                    | Some c -> (match exec_command tbl rk bs c !g with
                                 | GOk (m, g1) -> Some (l, m, g1)
                                 | _ -> human_move ())
                    | None -> human_move ()) in
             let done_ = ref [] in
             List.iteri (fun k san ->
                 if !ok then begin
                   (match over !g with
                    | Some r -> ok := false; spec_fail (Printf.sprintf "C15 play: the loop made move %d (%s) after `%s` in [%s]" (k + 1) san r (snap_of !g.gboard))
                    | None -> ());
                   if !ok then
                   if !g.gboard.turn = player then
                     (match human_move () with
                      | None -> ok := false;
                          spec_fail (Printf.sprintf "C14 play: move %d (%s) was made on the human's turn although no remaining typed line names a legal move in [%s]" (k + 1) san (snap_of !g.gboard))
                      | Some (l, m, g1) ->
                          (if san <> "-" then
                             match apply_by_notation tbl rk bs !g (chars_of_string san) with
                             | GOk (m', _) when mv_text m' = mv_text m -> ()
                             | _ -> ok := false;
                                 spec_fail (Printf.sprintf "C14 play: the typed line `%s` names %s but the loop shows move %d as `%s` in [%s]" l (mv_text m) (k + 1) san (snap_of !g.gboard)));
                          if !ok then (g := pass g1; done_ := san :: !done_))
                   else
                     (match apply_by_notation tbl rk bs !g (chars_of_string san) with
                      | GOk (_, g1) -> g := pass g1; done_ := san :: !done_
                      | _ -> ok := false;
                          spec_fail (Printf.sprintf "C15 play: the engine's move %d was printed as `%s`, which is not the notation of a legal move in [%s]" (k + 1) san (snap_of !g.gboard)))
                 end) moves;
             let mend = if not !ok then "invalid" else
                 match over !g with
                 | Some r -> r
                 | None ->
                     (* nothing more was played: on the human's turn no remaining line may be acceptable *)
                     if !g.gboard.turn = player then
                       (match human_move () with
                        | Some (l, m, _) ->
                            spec_fail (Printf.sprintf "C14 play: the typed line `%s` names the legal move %s in [%s] but the loop did not play it" l (mv_text m) (snap_of !g.gboard));
                            "invalid"
                        | None -> "runaway")
                     else
                       (* the engine's turn with the game not over: it should have moved (unless the rules give no move) *)
                       (match gen_moves tbl rk bs !g.gboard !g.gboard.turn with
                        | Ok ([], _) -> "runaway"
                        | _ -> spec_fail (Printf.sprintf "C15 play: the loop stopped showing moves on the engine's turn in [%s]" (snap_of !g.gboard)); "invalid") in
             if !ok && mend <> "invalid" && mend <> iend && not (mend = "runaway" && iend = "eof") then
               spec_fail (Printf.sprintf "C15 play: the loop ended with `%s` after %d moves where the model says `%s` in [%s]" iend (List.length moves) mend (snap_of !g.gboard));
             Printf.sprintf "play %s %s" (if mend = "runaway" && iend = "eof" then "eof" else mend) (String.concat " " (List.rev !done_))
         | _ -> "play ?")
    | [ "pvp"; script ] ->
        (* the player-vs-player loop: board printed, game-over test, one input read, classified by the
           translated patterns (coordinates first), executed; the turn is toggled after an accepted move *)
        let inputs = String.split_on_char '|' script in
        let b0 = ref board_new in
        String.iteri (fun i ch -> if ch <> '.' then let (p, c) = parse_pchar ch in
                        match put tbl !b0 (n_of_int i) p c with Ok y -> b0 := y | _ -> ())
          "RNBQKBNRPPPPPPPP................................pppppppprnbqkbnr";
        let g0 = { gboard = !b0; ghist = []; gdepth = N0 } in
        let show (gm : game) = Printf.sprintf "%s:%c" (cells_string (fun i -> bget gm.gboard (n_of_int i))) (if gm.gboard.turn = White then 'w' else 'b') in
        (* the loop itself is the extracted model (Pvp.pvp_run: trim, classification by the translated
           patterns, command execution, turn toggle, verdict before every prompt) *)
        let (gs, r) = pvp_run tbl rk bs g0 (List.map chars_of_string inputs) in
        let ending = match r with
          | Ok (Some Checkmate) -> "checkmate" | Ok (Some Stalemate) -> "stalemate" | Ok (Some Draw) -> "draw"
          | Ok None -> "runaway" | _ -> "crashed" in
        Printf.sprintf "pvp %s %s" ending (String.concat " " (List.map show gs))
    | [ "watch"; limit; d ] ->
        (* the real watch loop chose the moves (random book continuation, search): the model validates
           them - every printed label must be the notation of a legal move in the position reached, the
           half-move clock shown must be the model's, the loop must stop exactly when the model's
           game_ending / the move limit says so - and answers with what it validated *)
        let limit = int_of_string limit in
        let b0 = ref board_new in
        String.iteri (fun i ch -> if ch <> '.' then let (p, c) = parse_pchar ch in
                        match put tbl !b0 (n_of_int i) p c with Ok y -> b0 := y | _ -> ())
          "RNBQKBNRPPPPPPPP................................pppppppprnbqkbnr";
        let g = ref { gboard = !b0; ghist = []; gdepth = n_of_int (int_of_string d) } in
        let impl = match !next_obs with Some o -> o | None -> "" in
        let itoks = List.filter (fun x -> x <> "") (String.split_on_char ' ' impl) in
        (match itoks with
         | "watch" :: iend :: moves ->
             let ok = ref true in
             let stop_reason (gm : game) : string option =
               match game_ending tbl rk bs gm.gboard gm.gboard.turn with
               | Ok (Some Checkmate, _) -> Some "checkmate"
               | Ok (Some Stalemate, _) -> Some "stalemate"
               | Ok (Some Draw, _) -> Some "draw"
               | Ok (None, _) -> if limit > 0 && int_of_n gm.gboard.fullmove > limit then Some "limit" else None
               | _ -> Some "PANIC" in
             let done_ = ref [] in
             List.iteri (fun k tok ->
                 if !ok then begin
                   (match stop_reason !g with
                    | Some r -> ok := false;
                        spec_fail (Printf.sprintf "C15 watch: the loop made move %d (%s) although it should have stopped with `%s` in [%s]" (k + 1) tok r (snap_of !g.gboard))
                    | None -> ());
                   if !ok then
                   match String.split_on_char '/' tok with
                   | [ san; half; score ] ->
                       (match apply_by_notation tbl rk bs !g (chars_of_string san) with
                        | GOk (mplayed, g') ->
                            (* a searched move: the score shown must be the exact minimax value of the position
                               and the move must attain it (C08 through the real loop) *)
                            (if score <> "-" && (match Sys.getenv_opt "VERIF_PID" with Some "C08" | None -> true | _ -> false) then
                               match root_values tbl rk bs (nat_of_int (int_of_string d)) !g.gboard with
                               | Ok ((_ :: _) as vs) ->
                                   let vals = List.map (fun (_, v) -> int_of_z v) vs in
                                   let best = if !g.gboard.turn = White then List.fold_left max min_int vals else List.fold_left min max_int vals in
                                   let own = List.filter (fun (m, _) -> mv_text m = mv_text mplayed) vs in
                                   if string_of_int best <> score || not (List.exists (fun (_, v) -> int_of_z v = best) own) then
                                     spec_fail (Printf.sprintf "C08 watch: move %d (%s) shown with score %s; the exact depth-%s minimax value is %d and the move's own value is %s in [%s]"
                                                  (k + 1) san score d best (match own with (_, v) :: _ -> string_of_int (int_of_z v) | [] -> "?") (snap_of !g.gboard))
                               | _ -> ());
                            let g'' = { g' with gboard = toggle_turn g'.gboard } in
                            (match halfmove g''.gboard with
                             | Ok h when int_of_n h = int_of_string half -> ()
                             | Ok h -> spec_fail (Printf.sprintf "C16 watch: half-move clock shown as %s after move %d (%s), the model has %d" half (k + 1) san (int_of_n h))
                             | _ -> ());
                            g := g''; done_ := tok :: !done_
                        | _ -> ok := false;
                            spec_fail (Printf.sprintf "C15 watch: move %d was printed as `%s`, which is not the notation of a legal move in [%s]" (k + 1) san (snap_of !g.gboard)))
                   | _ -> ok := false
                 end) moves;
             let mend = if !ok then (match stop_reason !g with Some r -> r | None -> "running") else "invalid" in
             if !ok && mend <> iend then
               spec_fail (Printf.sprintf "C15 watch: the loop ended with `%s` after %d moves where the model says `%s` in [%s]" iend (List.length moves) mend (snap_of !g.gboard));
             Printf.sprintf "watch %s %s" mend (String.concat " " (List.rev !done_))
         | _ -> "watch ?")
    | [ "gcoord"; f; t ] ->
        (match !game with
         | None -> "PANIC"
         | Some g ->
             (match apply_by_coords tbl rk bs g (n_of_int (parse_sq f)) (n_of_int (parse_sq t)) with
              | GOk (m, g') ->
                  (* C14: accepted iff some legal move has these squares; queen when promotion *)
                  game := Some g'; hist := mv_text m :: !hist; "gcoord Ok " ^ mv_text m
              | GPanic -> "gcoord PANIC"
              | _ -> "gcoord Err"))
    | [ "galg"; s ] ->
        (match !game with
         | None -> "PANIC"
         | Some g ->
             (match apply_by_notation tbl rk bs g (chars_of_string s) with
              | GOk (m, g') -> game := Some g'; hist := mv_text m :: !hist; "galg Ok " ^ mv_text m
              | GPanic -> "galg PANIC"
              | _ -> "galg Err"))
    | [ "gengine" ] ->
        (* the book choice is random: the comparer checks membership in the legal set *)
        (match !game with
         | None -> "PANIC"
         | Some g ->
             let legal = legal_moves (abstract g.gboard) in
             Printf.sprintf "gengine {%s}" (String.concat " " (sorted_moves legal)))
    | [ "gselect" ] ->
        (match !game with
         | None -> "PANIC"
         | Some g ->
             let legal = legal_moves (abstract g.gboard) in
             Printf.sprintf "gselect {%s}" (String.concat " " (sorted_moves legal)))
    | [ "gsync"; ms ] ->
        (* follow the move the implementation's engine chose *)
        (match !game with
         | None -> "PANIC"
         | Some g ->
             let m = parse_mv ms in
             (match apply_move tbl m g.gboard with
              | Ok b' -> game := Some { g with gboard = b'; ghist = g.ghist @ [ m ] }; hist := ms :: !hist; "ok"
              | _ -> "PANIC"))
    | [ "gunplay" ] ->
        (* take back the last move made through the game (C15 scaffolding) *)
        (match !game with
         | None -> "PANIC"
         | Some g ->
             (match List.rev g.ghist with
              | [] -> "nothing"
              | m :: rest ->
                  (match undo_move tbl m g.gboard with
                   | Ok b' -> game := Some { g with gboard = b'; ghist = List.rev rest };
                       hist := (match !hist with _ :: t -> t | [] -> []); "ok"
                   | _ -> "PANIC")))
    | [ "gtoggle" ] ->
        (match !game with Some g -> game := Some { g with gboard = toggle_turn g.gboard }; "ok" | None -> "PANIC")
    | [ "gsnap" ] ->
        (match !game with
         | Some g -> Printf.sprintf "gsnap %s | last %s" (game_snap g) (match !hist with m :: _ -> m | [] -> "-")
         | None -> "PANIC")
    | [ "gbsnap" ] -> (match !game with Some g -> snap_of g.gboard | None -> "PANIC")
    | "cliin" :: rest ->
        (* the command-line input layer: coordinate pattern first, then the notation pattern
           (regexes translated from src/input_handler/mod.rs), then the Game API *)
        (match !game with
         | None -> "PANIC"
         | Some g ->
             let s = (match rest with t :: _ -> t | [] -> "") in
             let cs = chars_of_string s in
             let b = g.gboard in
             (* spec: a label the engine prints for a legal move of this position must be accepted as that move *)
             let printed =
               (match gen_annotated tbl rk bs b b.turn with
                | Ok (l, b1) -> (match san_all b1 (List.map fst l) l with
                    | Ok labelled -> List.map (fun (m, t) -> (string_of_chars t, m)) labelled
                    | _ -> [])
                | _ -> []) in
             let res =
               if full_match cOORDINATE_RE cs then
                 (match apply_by_coords tbl rk bs g (n_of_int (parse_sq (String.sub s 0 2))) (n_of_int (parse_sq (String.sub s 2 2))) with
                  | GOk (m, g') -> game := Some g'; hist := mv_text m :: !hist; "cliin accepted " ^ mv_text m
                  | GPanic -> "cliin PANIC"
                  | _ -> "cliin refused-game")
               else if full_match aLGEBRAIC_RE cs then
                 (match apply_by_notation tbl rk bs g cs with
                  | GOk (m, g') -> game := Some g'; hist := mv_text m :: !hist; "cliin accepted " ^ mv_text m
                  | GPanic -> "cliin PANIC"
                  | _ -> "cliin refused-game")
               else "cliin refused-parser" in
             (match List.assoc_opt s printed with
              | Some m when res <> "cliin accepted " ^ mv_text m ->
                  spec_fail (Printf.sprintf "C14 `%s` is the label printed for the legal move %s but the input layer answers [%s] in [%s]" s (mv_text m) res (snap_of b))
              | _ -> ());
             res)
    | [ "gover" ] ->
        (match !game with
         | Some g -> (match game_ending tbl rk bs g.gboard g.gboard.turn with Ok (e, _) -> Printf.sprintf "gover %c" (ending_char e) | _ -> "PANIC")
         | None -> "PANIC")
    | [ "glabels" ] ->
        (match !game with
         | Some g ->
             let b = g.gboard in
             (match gen_annotated tbl rk bs b b.turn with
              | Ok (l, b1) -> (match san_all b1 (List.map fst l) l with
                  | Ok labelled -> "glabels" ^ String.concat "" (List.map (fun (m, s) -> Printf.sprintf " %s:%s" (mv_text m) (string_of_chars s)) labelled)
                  | _ -> "PANIC")
              | _ -> "PANIC")
         | None -> "PANIC")
    | [ "sweep"; piece; sqs; _n ] ->
        (* digest over all subsets of the relevant mask, carry-rippler order *)
        let sq = int_of_string sqs in
        let deltas = if piece = "rook" then rook_deltas else bishop_deltas in
        let mask = u64_of_n (relevant_blockers deltas (n_of_int sq)) in
        let mix h v = let x = Int64.mul (Int64.logxor h v) 0x100000001B3L in
          Int64.logor (Int64.shift_left x 17) (Int64.shift_right_logical x 47) in
        let digest = ref 0xcbf29ce484222325L in
        let magic = if piece = "rook" then Lazy.force magic_rk else Lazy.force magic_bs in
        let sub = ref 0L in
        let continue = ref true in
        while !continue do
          let occ = Int64.logor !sub (Int64.shift_left 1L sq) in
          let t = if piece = "rook" then rook_ref (n_of_int sq) (n_of_u64 occ) else bishop_ref (n_of_int sq) (n_of_u64 occ) in
          (* the magic-table model built from the entries of the current build (C11 theorem: equal) *)
          if magic (n_of_int sq) (n_of_u64 occ) <> t then
            spec_fail (Printf.sprintf "C11 magic-table model differs from the ray walk for %s on %d with occupancy %Lx" piece sq occ);
          digest := mix !digest (u64_of_n t);
          sub := Int64.logand (Int64.sub !sub mask) mask;
          if !sub = 0L then continue := false
        done;
        Printf.sprintf "digest %016Lx" !digest
    | [ "table"; piece; sqs ] ->
        let sq = n_of_int (int_of_string sqs) in
        Printf.sprintf "targets %Lx" (u64_of_n (if piece = "knight" then knight_targets sq else king_targets sq))
    | [ "rx"; s ] ->
        (* input classification: coordinate first, then notation (src/input_handler) *)
        let s' = if s = "<empty>" then "" else s in
        let cs = chars_of_string s' in
        if full_match cOORDINATE_RE cs then "rx coord"
        else if full_match aLGEBRAIC_RE cs then "rx alg"
        else "rx invalid"
    | _ -> failwith ("unknown op: " ^ op) in
  obs r

let () =
  load_zobrist Sys.argv.(1);
  let lines = ref [] in
  (try while true do lines := String.trim (input_line stdin) :: !lines done with End_of_file -> ());
  let arr = Array.of_list (List.rev !lines) in
  let n = Array.length arr in
  Array.iteri (fun i l ->
      if l = "" then ()
      else match l.[0] with
        | '<' | '!' | '=' -> ()
        | '#' -> ()
        | _ ->
            next_obs := (if i + 1 < n && String.length arr.(i + 1) >= 2 && String.sub arr.(i + 1) 0 2 = "< "
                         then Some (String.sub arr.(i + 1) 2 (String.length arr.(i + 1) - 2)) else None);
            exec l;
            (* every answer is written out at once: a job stopped by its time limit leaves a usable prefix *)
            print_string (Buffer.contents out); Buffer.clear out; flush stdout) arr;
  print_string (Buffer.contents out)
