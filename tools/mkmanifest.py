#!/usr/bin/env python3
"""mkmanifest.py — writes /verif/MANIFEST.json from the per-property tables (kept in one
place so that the manifest, the checks and the evidence cannot drift apart)."""
import json
import os
import sys

sys.path.insert(0, os.path.dirname(os.path.abspath(__file__)))
import props as PROPS  # noqa: E402
import claims  # noqa: E402

VERIF = os.path.dirname(os.path.dirname(os.path.abspath(__file__)))

ALL = ["C%02d" % i for i in range(1, 20)]


def main():
    checks = []
    na = []
    for pid in ALL:
        c = claims.CLAIMS.get(pid)
        if pid not in PROPS.CONFIG or c is None or c.get("not_applicable"):
            na.append({"property_id": pid, "reason": (c or {}).get("reason", "check not built yet")})
            continue
        checks.append({
            "property_id": pid,
            "quick_cmd": "./check %s --tier quick" % pid,
            "thorough_cmd": "./check %s --tier thorough" % pid,
            "evidence_file": "/verif/evidence/%s.json" % pid,
            "replay_cmd_template": "./check %s --replay {path}" % pid,
            "engine": "rocq-model+correspondence",
            "level_claimed": {"category": c["category"], "text": c["text"], "design_ref": c.get("design_ref", "DESIGN.md §4 " + pid)},
            "level_note": c["note"],
            "technique": c["technique"],
        })
    man = {
        "version": 1,
        "setup_cmd": "./check setup",
        "hooks": {
            "guard": "--cfg chess_verif",
            "enable": "harness/.cargo/config.toml sets rustflags = [\"--cfg\", \"chess_verif\"]; the harness crate depends on /repo by path and is rebuilt by every check",
            "baseline_off_cmd": "cd /repo && cargo test --workspace --no-fail-fast --offline",
            "source_commits": claims.HOOK_COMMITS,
            "add_only": True,
        },
        "engines": [
            {"name": "rocq-model+correspondence", "path": "/verif/rocq, /verif/runner, /verif/harness, /verif/tools",
             "serves_properties": [c["property_id"] for c in checks],
             "kind_free_text": "Rocq (Coq 8.16.1) development: hand-written executable model of the engine + FIDE-rules spec + generic theory, "
                               "property theorems in rocq/props; tied to /repo on every run by a data translator (tools/translate.py) and a correspondence "
                               "check (Rust harness on the real code vs the extracted OCaml model vs the spec)"}
        ],
        "checks": checks,
        "not_applicable": na,
        "notes": "See DESIGN.md. KNOWN_FINDINGS.json lists the genuine defects found (all repaired by fix: commits so far, or recorded as known).",
    }
    with open(os.path.join(VERIF, "MANIFEST.json"), "w") as f:
        json.dump(man, f, indent=1)
    print("MANIFEST.json: %d checks, %d not claimed" % (len(checks), len(na)))


if __name__ == "__main__":
    main()
