"""claims.py — what MANIFEST.json claims per property (level, technique, trusted base)."""

HOOK_COMMITS = ["b088c3e"]

PENDING = "Correspondence of the implementation with the executable Rocq model and the rules spec on generated scenarios; the property theorems over the model are being added (level will be raised to proof when props/%s.v exists)."
NOTE = "Trusted: the hand-written model and spec (rocq/*.v) as renderings of src/ and of the FIDE Laws, extraction (ExtrOcamlBasic, ExtrOcamlString), runner/driver.ml, the Rust harness, tools/vcheck.py. Coverage of the correspondence is what evidence/%s.json reports."


def pending(pid, technique):
    return {"category": "translation_validation", "text": PENDING % pid, "note": NOTE % pid, "technique": technique}


CLAIMS = {
    "C01": pending("C01", "differential correspondence: implementation vs extracted Rocq model vs Rules.legal_moves (theorems pending)"),
    "C02": pending("C02", "differential correspondence: long-lived generator vs cache-free Rocq model (theorems pending)"),
    "C03": pending("C03", "differential correspondence: apply vs Rocq model vs Rules.successor (theorems pending)"),
    "C04": pending("C04", "harness-side snapshot equality around apply/undo + correspondence with the Rocq model (theorems pending)"),
    "C05": pending("C05", "correspondence of the incremental key with the model and with key_of (theorems pending)"),
    "C06": pending("C06", "differential correspondence of verdicts and annotations vs model vs rules (theorems pending)"),
    "C11": pending("C11", "exhaustive sweep of the attack tables through the API vs ray walking (theorems pending)"),
    "C12": pending("C12", "invariant predicate on every visited state + correspondence with the model (theorems pending)"),
    "C13": pending("C13", "differential correspondence of SAN labels vs model vs SanSpec (theorems pending)"),
    "C16": pending("C16", "reference-tracked clocks along long games vs model vs rules (theorems pending)"),
    "C18": pending("C18", "colour-flip antisymmetry decided by the harness + correspondence with the model (theorems pending)"),
    "C19": pending("C19", "UCI text and read-back vs model vs standard form (theorems pending)"),
}
CLAIMS["C07"] = pending("C07", "search answer vs the rules' legal set and board snapshot equality, all depths and pool sizes (theorems pending)")
CLAIMS["C08"] = pending("C08", "search (score, move) vs exact minimax of the extracted Rocq model (theorems pending)")
CLAIMS["C10"] = pending("C10", "count_positions vs cumulative perft of the rules spec (theorems pending)")
CLAIMS["C14"] = pending("C14", "Game API accept/reject vs model and legality, snapshots around rejected inputs (theorems pending)")
CLAIMS["C15"] = pending("C15", "book trie vs translated lines; engine move legality at every book node and supplied positions (theorems pending)")
CLAIMS["C17"] = pending("C17", "registration counts vs reference multiset of full positions and vs the model (theorems pending)")
for _p in ("C09",):
    CLAIMS[_p] = {"not_applicable": True, "reason": "check under construction in this session (not a limitation of the technique); not claimed until it runs"}
