"""claims.py — what MANIFEST.json claims per property (level, technique, trusted base)."""

HOOK_COMMITS = ["b088c3e"]

PENDING = "Correspondence of the implementation with the executable Rocq model and the rules spec on generated scenarios; the property theorems over the model are being added (level will be raised to proof when props/%s.v exists)."
NOTE = "Trusted: the hand-written model and spec (rocq/*.v) as renderings of src/ and of the FIDE Laws, extraction (ExtrOcamlBasic, ExtrOcamlString), runner/driver.ml, the Rust harness, tools/vcheck.py. Coverage of the correspondence is what evidence/%s.json reports."


def pending(pid, technique):
    return {"category": "translation_validation", "text": PENDING % pid, "note": NOTE % pid, "technique": technique}


CLAIMS = {
    "C01": pending("C01", "differential correspondence: implementation vs extracted Rocq model vs Rules.legal_moves (theorems pending)"),
    "C02": pending("C02", "differential correspondence: long-lived generator vs cache-free Rocq model (theorems pending)"),
    "C03": pending("C03", "differential correspondence: apply vs Rocq model vs Rules.successor (theorems pending)"),
    "C04": pending("C04", "harness-side snapshot equality around apply/undo + correspondence with the Rocq model (theorems pending)"),
    "C05": pending("C05", "correspondence of the incremental key with the model and with key_of (theorems pending)"),
    "C06": pending("C06", "differential correspondence of verdicts and annotations vs model vs rules (theorems pending)"),
    "C11": pending("C11", "exhaustive sweep of the attack tables through the API vs ray walking (theorems pending)"),
    "C12": pending("C12", "invariant predicate on every visited state + correspondence with the model (theorems pending)"),
    "C13": pending("C13", "differential correspondence of SAN labels vs model vs SanSpec (theorems pending)"),
    "C16": pending("C16", "reference-tracked clocks along long games vs model vs rules (theorems pending)"),
    "C18": pending("C18", "colour-flip antisymmetry decided by the harness + correspondence with the model (theorems pending)"),
    "C19": pending("C19", "UCI text and read-back vs model vs standard form (theorems pending)"),
}
CLAIMS["C07"] = pending("C07", "search answer vs the rules' legal set and board snapshot equality, all depths and pool sizes (theorems pending)")
CLAIMS["C08"] = pending("C08", "search (score, move) vs exact minimax of the extracted Rocq model (theorems pending)")
CLAIMS["C10"] = pending("C10", "count_positions vs cumulative perft of the rules spec (theorems pending)")
CLAIMS["C14"] = pending("C14", "Game API accept/reject vs model and legality, snapshots around rejected inputs (theorems pending)")
CLAIMS["C15"] = pending("C15", "book trie vs translated lines; engine move legality at every book node and supplied positions (theorems pending)")
CLAIMS["C17"] = pending("C17", "registration counts vs reference multiset of full positions and vs the model (theorems pending)")

PROOF_NOTE = ("Trusted: Coq 8.16.1 kernel and vm_compute; no axioms (Print Assumptions of every theorem in props/%s.v must say 'Closed under the global context'); "
              "the hand-written model (rocq/*.v) as a rendering of src/, tied to the code by tools/translate.py (data regenerated from the working tree every run, theorems re-checked on it) "
              "and by the correspondence run (Rust harness on the real code vs the extracted OCaml model vs the rules spec; extraction with ExtrOcamlBasic + ExtrOcamlString only); "
              "rocq/Rules.v as a rendering of the FIDE Laws. Coverage of the correspondence is what evidence/%s.json reports.")


def proof(pid, text, technique):
    return {"category": "proof", "text": text, "note": PROOF_NOTE % (pid, pid), "technique": technique}


CLAIMS["C05"] = proof("C05", "Kernel-checked theorems over the model for every key table and every history of put/remove/rights/ep operations, moves and take-backs: the incremental key equals the XOR key_of the observable position (hash_is_key_of), histories ending in the same position end with the same key, and - with table_ok evaluated by the kernel on the constants of the current build - positions differing in one cell, only in rights or only in the ep target have different keys. Tied to the code by the black-box read-back of all 848 constants and by the correspondence of the key after every operation of generated histories.",
                      "Rocq proof (invariant by induction over operation histories, XOR algebra on N) + kernel sweep of the build's key table + correspondence")
CLAIMS["C11"] = proof("C11", "Kernel-checked theorem for ANY 64 magic entries that pass the build script's acceptance test: the table built by make_table answers every lookup (any square, any 64-bit occupancy) with the ray walk up to and including the first occupied square, and never indexes outside the table; the 128 entries of the current build are shown to pass the test by a complete sweep of the 107,648 blocker sets inside the kernel VM on every run; knight and king tables equal the coordinate definition on all 64 squares. Tied to the code by reading the entries through the hook and by the exhaustive sweep of the engine's attack maps against ray walking.",
                      "Rocq proof (magic_lookup_exact for every accepted multiplier) + kernel sweep of the current build's entries + exhaustive differential sweep of the engine tables")
CLAIMS["C14"] = proof("C14", "Command-line level proved: every string the SAN writer can emit (164,166 labels, complete sweep on the regexes translated from the source each run) is classified as notation and never as a coordinate pair, every coordinate pair as coordinates, and every label printed by san_label is of that shape. The Game-API part (accepted iff legal, played exactly, rejected without effect) is decided by correspondence with the model and the rules plus snapshots taken around every rejected input, and by typing every printed label into the real input layer.",
                      "Rocq proof (complete regex sweep + label-shape theorem) for the input layer; differential correspondence + snapshot equality for the Game API")
CLAIMS["C15"] = proof("C15", "Kernel-checked on the book source translated every run: every prefix of every line is a legal sequence from the initial position of the rules spec, each book move matches exactly one legal move, the trie (any hash-map iteration order) returns exactly the continuations of the lines, and every suggestion drawn at a book node is legal there. That the engine answers with a legal move off-book and from supplied positions is decided by correspondence (every trie node, off-book histories, supplied positions).",
                      "Rocq proof (complete sweep of the book + trie refinement by induction) + differential correspondence for the engine's move")
CLAIMS["C16"] = proof("C16", "Kernel-checked theorems over the model: each applied move advances the move counter by one and resets / advances the half-move clock exactly as the rules' successor does, undo retreats both, whole games satisfy clock = plies since the last capture or pawn move, the counters cannot abort in a game shorter than 65534 plies not yet drawn on move count, and the draw is reported exactly when the clock has reached 100 (threshold translated from the source). Tied to the code by reference-tracked long games including the boundary plies.",
                      "Rocq proof (induction over games, characterisation of every counter operation) + correspondence along long games")
CLAIMS["C17"] = proof("C17", "First sentence proved over the model (count = registrations minus unregistrations of the same (key, side), unregistering is the observational inverse, third registration draws; under collision_free the count is the number of occurrences of the full position). Second sentence REFUTED for the code as it is: nothing reachable through the Game API registers a position (api_no_repetition_draw, threefold_not_reported) - recorded as a known finding and replayed on the real Game API every run.",
                      "Rocq proof for the accounting + refutation theorem for the Game API (known finding) + correspondence with a reference multiset")
CLAIMS["C19"] = proof("C19", "Kernel-checked: to_uci is the standard long coordinate form; from_uci (to_uci m) = m exactly for the moves that fit the board (uci_roundtrip_iff), hence injectivity; every move the model's generator emits fits (gen_moves_fit). Tied to the code by rendering and reading back every legal move of generated positions through the cfg-exposed reader.",
                      "Rocq proof (round trip and injectivity for all fitting moves, generator emits only fitting moves) + correspondence")
CLAIMS["C08"] = proof("C08", "Generic theory kernel-checked: fail-soft alpha-beta with the engine's loop structure satisfies the fail-soft contract for every window, equals plain minimax on the full window, minimax does not depend on move order, and a search through a sound shared cache (fresh or reused) returns the same value, provided the cache key determines the value. The chess instance (the engine's own evaluation, generator and key) is decided by correspondence: (score, move) of the real search vs the exact minimax of the extracted model, fresh and reused contexts.",
                      "Rocq proof of the generic alpha-beta / memoisation theory + differential correspondence of the real search with exact minimax")
CLAIMS["C09"] = proof("C09", "Generic theory kernel-checked for EVERY schedule: tasks as read/write resumptions over a shared cache; under 'key determines value' every finished task returns the pure value of its root move, the cache stays sound, no task can block, every partial schedule extends to a complete one with the same answers; the hypothesis is shown necessary (two schedules disagree with the original (hash, alpha, beta) key). Runtime: the real search in pools of 1..64 threads under seeded schedule perturbation at every hook point, with an observer that flags any cache key written with two values. OS-level preemption inside locks and rayon's work stealing are below the model's granularity.",
                      "Rocq proof over all interleavings of the resumption model + perturbed-schedule runs of the real search with a cache-write observer")


CLAIMS["C04"] = proof("C04", "Kernel-checked over the model: for every table, every well-formed board and every move object that applies (any kind; an en-passant object must capture an enemy pawn, which every generated one does), undo returns the STRUCTURALLY identical board - all 14 bitboards, turn, the three stacks, move counter, key, repetition map and stack - and so do sequences of any length undone in reverse order, with or without the turn toggled between plies; generation, annotation, verdicts, scoring and the recursive search return the caller's board (GenFrame, SearchFrame). Tied to the code by full snapshots around every apply/undo of generated walks and trees.",
                      "Rocq proof (inverse lemmas for put/remove and the stack operations, induction over move sequences) + snapshot equality on the real code + correspondence")
CLAIMS["C07"] = proof("C07", "Kernel-checked over the model, relative to the model's own generator: depth 0 gives DepthTooLow, an empty legal list gives NoAvailableMoves, otherwise the answer is a member of the generated legal list and the board returned is the caller's; under the board invariant the search never panics; termination is structural. That the generated list is the FIDE legal list is C01 (correspondence + partial refinement). Runtime: real searches at depths 0..3 in pools of 1..64 threads under catch_unwind, answer checked against the rules' legal set and full board snapshots compared.",
                      "Rocq proof (sort permutations, board-threading induction over depth, totality under the invariant) + correspondence of the real search with the rules' legal set")

CLAIMS["C03"] = proof("C03", "Kernel-checked over the model: for every well-formed board and every move satisfying move_ok (the shape facts of generated moves + 'a held right implies king and rook at home'; decidable, evaluated by the runner on every generated move of every scenario state), apply returns Ok, leaves the turn alone and the observable position afterwards IS Rules.successor (all 64 cells, rights, en-passant target, both clocks), with each clause of the statement as a named corollary. Tied to the code by comparing the full observable position after every legal move of generated trees, walks and set-ups with the model and the rules.",
                      "Rocq proof (refinement of apply to Rules.successor, totality) + differential correspondence of every legal move's successor")
CLAIMS["C12"] = proof("C12", "Kernel-checked over the model: Repr (the Prop form of the executable repr_ok: every clause of the statement) is preserved by apply for every move of generated shape, every generated move has that shape, castling rights only lose bits, and Repr holds in every state reached by legal moves, turn flips and undos AND in every transient state visited between a pseudo-legal move and its undo (InvC_reachable, Repr_visited), from any board satisfying the decidable invb. Tied to the code by evaluating every clause on the implementation's own bitboards at every node of trees, walks and set-ups.",
                      "Rocq proof (inductive invariant over reachable and transient states) + invariant predicate on every visited state of the real code")
CLAIMS["C13"] = proof("C13", "Kernel-checked over the model: the engine's label algorithm equals the FIDE/PGN rule (san_matches_spec), never fails on a well-formed candidate list, rendering is injective on well-formed labels and the disambiguation separates rivals, so no two moves of a position share a label (san_labels_nodup). The hypotheses about the candidate list are the decidable position_likeb, evaluated by the runner on the generated list of every scenario state. Tied to the code by comparing every label of every visited position with the model and the spec writer.",
                      "Rocq proof (label = spec, injective rendering, rival separation) + differential correspondence of every label")
CLAIMS["C18"] = proof("C18", "Kernel-checked on the evaluation tables translated from the source every run: static score of the colour-swapped rotated board is the exact negative (unconditionally once the score is defined), for legal material (nine queens admitted) every partial sum stays in i16 and |score| < |mate score| - 255, mate-score arithmetic cannot overflow for depths <= 255, stalemate scores zero, deeper mates score strictly better. Tied to the code by reading every table entry through the source translation and by flip / depth sweeps on the real evaluation with overflow checks on.",
                      "Rocq proof (re-indexing symmetry, counting bound, sweeps of the translated tables) + correspondence on flipped and material-extreme positions")
