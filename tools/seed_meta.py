#!/usr/bin/env python3
"""seed_meta.py <seed-name> [note...] — write seeded/<name>/meta.json from the sub-agent's meta.agent.json
and the logs that tools/run_seed.sh left under seeded/<name>/runs/."""
import json, os, sys, glob, re
name = sys.argv[1]
note = " ".join(sys.argv[2:])
d = os.path.join("/verif/seeded", name)
a = json.load(open(os.path.join(d, "meta.agent.json")))
runs = {}
for f in sorted(glob.glob(os.path.join(d, "runs", "*.log"))):
    cid = os.path.basename(f)[:-4]
    txt = open(f).read()
    m = re.search(r"^VIOLATION.*$", txt, re.M)
    runs[cid] = ("VIOLATION reported (exit 1)" + (" - no-failing-input-found" if m and "no-failing-input-found" in m.group(0) else "")) if m else "no violation reported (exit 0): MISSED"
meta = {
    "seed": name,
    "breaks_property": a.get("breaks_property"),
    "summary": a.get("summary"),
    "needs_to_manifest": a.get("needs_to_manifest"),
    "files_changed": a.get("files_changed"),
    "confirmed_by": "tools/confirm_seed.sh in a scratch worktree: crate builds, existing 90 tests pass with the patch, demo_test.rs fails with the patch and passes without it",
    "checks_run": runs,
    "how_run": "tools/run_seed.sh %s %s" % (name, " ".join(runs)),
    "produced_by": "fresh sub-agent given only the property text and a scratch worktree",
}
if note:
    meta["note"] = note
json.dump(meta, open(os.path.join(d, "meta.json"), "w"), indent=1)
print(name, runs)
