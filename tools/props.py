"""props.py — per-property configuration of the correspondence runs."""

TRUSTED_BASE = [
    "Coq 8.16.1 kernel (coqc; coqchk -o over all property files run by hand, result in /verif/COQCHK.txt: Axioms <none>); vm_compute for finite sweeps; no native_compute",
    "axioms: none (Print Assumptions under every property theorem must say 'Closed under the global context')",
    "tools/translate.py (pattern-based translation of data tables, book lines, regex literals, constants)",
    "extraction: Extraction Language OCaml, ExtrOcamlBasic (bool, option, unit, list, prod, sumbool), ExtrOcamlString (ascii->char, string->char list); no Extract Constant / Extract Inductive of our own; OCaml 4.13.1",
    "runner/driver.ml (parsing, printing, model-vs-spec comparison, validation of the moves the real game loops print), harness/ (Rust, path dependency on /repo, cfg chess_verif; its plain minimax `searchx` and its decision predicates are aids for finding a failing input, not part of any proof), tools/vcheck.py (diff)",
    "hand-written implementation model (rocq/*.v) as a rendering of src/: checked by the correspondence runs to the extent reported here",
    "spec layer rocq/Rules.v as a rendering of the FIDE Laws: validated against published perft counts",
]

ASSUMPTIONS = {
    "C02": ["collision_free: 64-bit position keys are injective on the positions a history touches"],
    "C06": ["collision_free for the cached (long-lived generator) variants", "decided where no count-based draw fires and current_turn == board.turn()"],
    "C08": ["collision_free for the 64-bit key component of the search cache"],
    "C09": ["collision_free for the 64-bit key component of the search cache", "runtime below the hook granularity (OS preemption inside RwLock, rayon work stealing) is outside the model"],
    "C10": ["collision_free for the generator's cache"],
    "C17": ["collision_free for the repetition map"],
}

NODE_IGNORE = ("apply", "undo", "toggle", "pos", "sync", "new", "clearlong")

CONFIG = {
    "C01": {
        "sort_tags": ("gen",), "ignore_ops": NODE_IGNORE, "spec_tags": ("gen",), "sample_tags": ("gen",),
        "rule": "every node of depth-limited trees under the curated corpus, of random legal walks and of consistent set-ups (two in five built around a pin, an en-passant line through the king, an attacked castling square or a corner promotion); "
                "the implementation's move set from a cache-cleared generator is compared (as a set, duplicates kept) with the model's, which the runner "
                "verifies against Rules.legal_moves on the same position; distinct = distinct move-set observations",
    },
    "C02": {
        "sort_tags": ("genl",), "sort_keep": {"genl": 2}, "ignore_ops": NODE_IGNORE, "spec_tags": ("genl",), "sample_tags": ("genl",),
        "rule": "one long-lived generator per run is queried along trees, walks, transposition and en-passant-order families, revisits after an expired en-passant "
                "opportunity or after lost castling rights, and promotion siblings; its move set and both attack maps are compared with the model's cache-free answer, and "
                "plain / annotated / single-colour queries for both colours are compared on the spot with a cache-cleared generator (genlx, attl)",
    },
    "C03": {
        "ignore_ops": ("undo", "toggle", "new"), "spec_tags": ("snap", "apply"), "sample_tags": ("apply",),
        "snap_fields": ("cells", "turn", "rights", "ep"),
        "rule": "every legal move of every visited node is made; the Result and the full observable position afterwards are compared with the model, "
                "whose successor the runner verifies against Rules.successor; distinct = distinct (move, resulting position) pairs",
    },
    "C04": {
        "ignore_ops": (), "sample_tags": ("snap", "stacks"), "spec_tags": ("count",),
        "rule": "walks with random multi-ply undo and exhaustive trees; before every apply the harness stores a full snapshot (64 squares, turn, rights, "
                "ep, both clocks, key, repetition top, the three stacks' contents, 15 bitboards) and compares it after the matching undo; every snapshot is "
                "also compared with the model's state",
    },
    "C05": {
        "ignore_ops": (), "spec_tags": ("key", "snap"), "sample_tags": ("key",),
        "snap_fields": ("cells", "rights", "ep", "key"),
        "rule": "random board-editing histories (put/remove/rights/ep push+pop), legal walks with undo, and shuffled transpositions of random lines; "
                "after every operation the key is compared with the model's incrementally maintained key and with key_of (the history-free XOR), and the harness "
                "checks that equal (placement, rights, ep) never shows two keys and one key never serves two positions",
        "fresh_tables": True,
    },
    "C06": {
        "sort_tags": ("effects", "effectsl"), "ignore_ops": NODE_IGNORE, "spec_tags": ("verdict", "verdictl", "effects", "effectsl"),
        "sample_tags": ("verdict", "effects"),
        "rule": "in-check / checkmate / game-ending verdicts for the side to move and the check/mate annotation of every legal move, with a cache-cleared and "
                "with the long-lived generator, compared with the model, which the runner verifies against the rules (king_attacked, no legal move)",
    },
    "C11": {
        "ignore_ops": (), "sample_tags": ("sweep", "table"), "spec_tags": ("sweep", "table"),
        "rule": "all 64 squares x all subsets of the relevant blocker squares (102,400 rook + 5,248 bishop cases) through the public attack-map API on "
                "one-slider boards, compared case by case with ray walking in the harness and, as a per-square digest, with the model's ray walk; all 64 knight and king entries",
        "fresh_tables": True,
    },
    "C12": {
        "ignore_ops": (), "sample_tags": ("bbs",), "spec_tags": ("inv",),
        "snap_fields": ("cells", "turn", "rights", "ep"),
        "rule": "every state of trees and long walks with undo: the 12 piece bitboards, 3 occupancy summaries, get() on 64 squares, rights and ep target are "
                "checked against every clause of the statement by the harness, and compared with the model's state on which repr_ok is evaluated",
    },
    "C13": {
        "sort_tags": ("san", "glabels"), "ignore_ops": NODE_IGNORE + ("game", "gtoggle", "gcoord", "galg", "gsnap", "gselect"), "spec_tags": ("san", "glabels"), "sample_tags": ("san", "glabels"),
        "rule": "the label of every legal move at every node, compared with the model's label, which the runner verifies against SanSpec (FIDE/PGN rule) and for pairwise distinctness",
    },
    "C16": {
        "ignore_ops": ("new",), "spec_tags": ("snap", "verdict", "watch"), "sample_tags": ("snap",), "panic_tags": ("apply", "undo", "snap", "verdict"),
        "snap_fields": ("half", "full"),
        "rule": "both counters after every ply of long reference-tracked games (the rules' successor tracks plies since the last capture or pawn move) and the game-ending verdict around the thresholds",
    },
    "C18": {
        "ignore_ops": NODE_IGNORE, "sample_tags": ("flipmat", "score"), "spec_tags": ("mat", "flipmat"), "panic_tags": ("score", "mat", "flipmat"),
        "rule": "static score of a position and of its colour-swapped 180-degree rotation (harness decides antisymmetry), score() at depths 0..255, on reachable and material-extreme set-ups; compared with the model",
    },
    "C19": {
        "sort_tags": ("uci",), "ignore_ops": NODE_IGNORE, "spec_tags": ("uci",), "sample_tags": ("uci",),
        "rule": "coordinate text of every legal move and the move reconstructed from it by the Stockfish-bridge reader (hook), compared with the model and with the standard form",
    },
    "C07": {
        "ignore_ops": ("pos", "sctx", "apply", "toggle", "undo"), "spec_tags": ("search", "snap"), "sample_tags": ("search",), "panic_tags": ("search", "snap"),
        "search_mode": "legal",
        "rule": "alpha_beta_search at depths 0..3 in rayon pools of 1..64 threads on corpus positions (mated, stalemated, single-reply, in-check ones included) and on "
                "positions met along random walks, under catch_unwind: the answer must be a member of the rules' legal-move set (or NoAvailableMoves / DepthTooLow exactly "
                "when the rules say so) and the full board snapshot (64 squares, clocks, key, stacks, 15 bitboards) must be identical before and after; distinct = distinct (position, depth, answer)",
    },
    "C08": {
        "ignore_ops": ("pos", "sctx", "apply", "toggle", "undo"), "spec_tags": ("search", "sched", "watch"), "sample_tags": ("search",),
        "search_mode": "exact",
        "rule": "(last_score, move) of alpha_beta_search vs the exact minimax of the extracted model (score equal; the move must be one whose own minimax value equals it; "
                "plain minimax at depths 1-2, from depth 3 the full-window alpha-beta list proved equal to it), fresh contexts, one context reused along a game, across half-move "
                "clocks 0..160, after a third registration and with either side to move; perturbed schedules with the cache-write observer; the score the real watch loop prints; "
                "depth-5 searches of tiny endings and depth-6 searches of mating nets decided by a plain minimax inside the harness (searchx)",
    },
    "C09": {
        "ignore_ops": ("pos", "sctx"), "spec_tags": ("sched",), "sample_tags": ("sched",), "search_mode": "exact",
        "rule": "the same position and depth searched in rayon pools of 1..64 threads, free-running and under seeded perturbation of every yield point "
                "(task begin/end, shared-cache read/write: random yields, per-task priorities, bounded long stalls), with fresh contexts and contexts reused from the "
                "previous run: all (move, score) answers of a position must coincide and equal the model's exact minimax, the observer must never see one cache key "
                "written with two values, nothing may panic or change the board",
    },
    "C10": {
        "ignore_ops": ("pos",), "spec_tags": ("perft", "perft2", "snap", "clicount"), "sample_tags": ("perft", "clicount"),
        "rule": "MoveGenerator::count_positions(depth) for depths 0..N in rayon pools of 1..16 threads (every size 1..8 at depth 1), two counts started at once on two threads, a cache-cleared and a long-lived generator, the count-positions command-line driver, vs the cumulative "
                "perft of the rules spec (sum over k = 1..depth+1 of the number of legal move sequences of length k)",
    },
    "C14": {
        "sort_tags": ("glabels",), "ignore_ops": ("pos", "game", "gtoggle", "gunplay"), "spec_tags": ("gcoord", "galg", "glabels", "gsnap", "cliin", "gbsnap", "pvp", "play"), "sample_tags": ("gcoord", "galg", "cliin", "pvp", "play"),
        "rule": "games played through the Game API: at every node several rejected inputs (mutated labels, labels of the previous position, illegal coordinate pairs; periodically all 4096 pairs) "
                "must leave the game snapshot (board, clocks, key, history) unchanged, and one accepted input (by label or by coordinates) must play exactly the named move and append it to the history; "
                "every answer is compared with the model's apply_by_coords / apply_by_notation",
    },
    "C15": {
        "ignore_ops": ("pos", "game", "gnew", "gtoggle", "gsync", "galg", "gsnap", "glabels"), "spec_tags": ("book", "gselect", "gengine", "gcoord", "watch", "play"), "sample_tags": ("book", "gselect", "gengine", "watch", "play"),
        "rule": "every node of the compiled opening-book trie (all prefixes of all lines) is compared with the continuations of the translated book source; the engine is asked for its move at every node "
                "of every line, past the end of lines, and in supplied starting positions: the answer must be a legal move of the rules whenever one exists",
    },
    "C17": {
        "ignore_ops": ("pos", "apply", "toggle", "undo", "gnew", "gtoggle"), "spec_tags": ("count", "gcoord"), "sample_tags": ("count", "gover"),
        "rule": "shuffling games (knight/king/rook dances, triangulations, loss of rights, en-passant opportunities, interleaved undo) in which every position is registered as it arises: the returned count is compared with a "
                "reference multiset of (placement, side to move, rights, ep target) kept by the harness, and with the model's count; the third occurrence must be reported as a draw",
    },
}

ALLC = "corpus=/verif/corpus/positions.txt"


def scenarios(pid, tier, seed):
    q = tier == "quick"
    S = "seed=%d" % seed
    if pid == "C01":
        return [
            {"args": ["scen", "family=tree", "depth=2", "budget=%d" % (120 if q else 4000), "ops=gen", "sync=1", S], "shards": 16},
            {"args": ["scen", "family=setups", "count=%d" % (600 if q else 20000), "depth=1", "budget=6", "ops=gen", "sync=1", S], "shards": 16},
            {"args": ["scen", "family=walk", "count=%d" % (32 if q else 400), "len=80", "ops=gen", "sync=1", S], "shards": 16},
        ]
    if pid == "C02":
        return [
            {"args": ["scen", "family=tree", "depth=3", "budget=%d" % (250 if q else 6000), "ops=genl,genlx", "sync=1", S], "shards": 16},
            {"args": ["scen", "family=walk", "count=%d" % (32 if q else 320), "len=60", "undo=15", "ops=genl,genlx", "sync=1", S], "shards": 16},
            {"args": ["scen", "family=transpositions", "count=%d" % (40 if q else 400), "ops=genl,genlx", "sync=1", S], "shards": 1},
            {"args": ["scen", "family=epfamilies", "ops=genl", "sync=1", S], "shards": 1},
            {"args": ["scen", "family=revisits", "ops=genl", "walkpos=%d" % (60 if q else 2000), S], "shards": 4},
            # positions with the same occupancy and another piece kind on one square (the four promotions of a pawn), one after the other
            {"args": ["scen", "family=siblings", "ops=genl,genlx", "setups=%d" % (300 if q else 6000), "walkpos=0", S], "shards": 8},
            # the same placement met again after castling rights have gone (kings and home rooks out and back, three times over)
            {"args": ["scen", "family=rightsrevisits", "ops=genl", "rounds=3", "setups=%d" % (40 if q else 1500), "walkpos=0", S], "shards": 8},
        ]
    if pid == "C03":
        return [
            {"args": ["scen", "family=tree", "depth=2", "budget=%d" % (150 if q else 5000), "ops=snap", S], "shards": 16},
            {"args": ["scen", "family=setups", "count=%d" % (400 if q else 10000), "depth=1", "budget=12", "ops=snap", S], "shards": 16},
            {"args": ["scen", "family=walk", "count=%d" % (32 if q else 400), "len=100", "ops=snap", S], "shards": 16},
        ]
    if pid == "C04":
        return [
            {"args": ["scen", "family=walk", "count=%d" % (48 if q else 480), "len=%d" % (150 if q else 400), "undo=20", "ops=snap,stacks,bbs", S], "shards": 16},
            {"args": ["scen", "family=tree", "depth=2", "budget=%d" % (100 if q else 3000), "ops=snap,stacks,bbs", S], "shards": 16},
            # repetition bookkeeping through registrations, irreversible moves and take-backs
            {"args": ["scen", "family=repetition", "count=%d" % (160 if q else 3000), "len=60", "undo=25", S], "shards": 16},
            # make/undo beyond the 100th quiet ply (the clock keeps counting after the draw threshold)
            {"args": ["scen", "family=walk", "names=quiet-clock", "count=%d" % (16 if q else 160), "len=120", "undo=20", "ops=snap,stacks", S], "shards": 16},
        ]
    if pid == "C05":
        return [
            {"args": ["scen", "family=history", "count=%d" % (32 if q else 640), "len=120", S], "shards": 16},
            {"args": ["scen", "family=walk", "count=%d" % (32 if q else 480), "len=120", "undo=15", "ops=snap,key", S], "shards": 16},
            {"args": ["scen", "family=transpositions", "count=%d" % (60 if q else 1500), "ops=snap,key", S], "shards": 1},
            {"args": ["scen", "family=epfamilies", "ops=snap,key", S], "shards": 1},
            {"args": ["scen", "family=rightsrevisits", "ops=snap,key", "rounds=3", "setups=%d" % (40 if q else 1500), "walkpos=0", S], "shards": 8},
        ]
    if pid == "C06":
        return [
            {"args": ["scen", "family=tree", "depth=2", "budget=%d" % (40 if q else 1200), "ops=verdict,effects,verdictl,effectsl", "sync=1", S], "shards": 16},
            {"args": ["scen", "family=setups", "count=%d" % (160 if q else 6000), "depth=0", "ops=verdict,effects,verdictl,effectsl", "sync=1", S], "shards": 16},
            {"args": ["scen", "family=walk", "count=%d" % (16 if q else 320), "len=40", "ops=verdict,effects,verdictl,effectsl", "sync=1", S], "shards": 16},
        ]
    if pid == "C11":
        return [{"args": ["magic-sweep", "extra=%d" % (1 if q else 6), S], "shards": 1}]
    if pid == "C12":
        return [
            {"args": ["scen", "family=walk", "count=%d" % (48 if q else 480), "len=%d" % (200 if q else 400), "undo=10", "ops=inv,bbs,snap", S], "shards": 16},
            {"args": ["scen", "family=tree", "depth=3", "budget=%d" % (300 if q else 8000), "ops=inv,bbs,snap", S], "shards": 16},
            {"args": ["scen", "family=setups", "count=%d" % (300 if q else 8000), "depth=2", "budget=30", "ops=inv,bbs,snap", S], "shards": 16},
        ]
    if pid == "C13":
        return [
            {"args": ["scen", "family=tree", "depth=2", "budget=%d" % (40 if q else 1200), "ops=san", "sync=1", S], "shards": 16},
            {"args": ["scen", "family=setups", "count=%d" % (200 if q else 8000), "depth=0", "ops=san", "sync=1", S], "shards": 16},
            {"args": ["scen", "family=walk", "count=%d" % (16 if q else 320), "len=40", "ops=san", "sync=1", S], "shards": 16},
            # Game::enumerated_candidate_moves along games, incl. a placement met again with the other side to move
            {"args": ["scen", "family=games", "len=7", "tempo=1", "names=bare-kings,pawn-ending,endgame-rp,castle-gives-check,single-reply,rooks-same-file,knights-no-shared,three-knights", "walkpos=%d" % (8 if q else 200), "maxpieces=8", S], "shards": 16},
        ]
    if pid == "C16":
        return [
            {"args": ["scen", "family=walk", "count=%d" % (32 if q else 320), "len=%d" % (300 if q else 600), "ops=snap,verdict", S], "shards": 16},
            # the half-move clock the real watch loop shows after every move
            {"args": ["scen", "family=watch", "games=%d" % (2 if q else 16), "limit=%d" % (30 if q else 120), S], "shards": 2},
        ]
    if pid == "C18":
        return [
            {"args": ["scen", "family=setups", "count=%d" % (2000 if q else 60000), "depth=0", "ops=mat,flipmat,score:0,score:7,score:255", "sync=1", S], "shards": 16},
            {"args": ["scen", "family=walk", "count=%d" % (32 if q else 320), "len=60", "ops=mat,flipmat,score:0,score:3", "sync=1", S], "shards": 16},
            # every terminal position of the corpus (mates, stalemates incl. those with an immobile piece left) and its neighbours
            {"args": ["scen", "family=tree", "depth=1", "budget=12", "names=stalemate,mated,fools-mate,underpromo,single-reply,castle-gives-mate,back-rank,max-material,nine-queens", "ops=mat,flipmat,score:0,score:4,score:255", "sync=1", S], "shards": 4},
        ]
    if pid == "C19":
        return [
            {"args": ["scen", "family=tree", "depth=2", "budget=%d" % (120 if q else 4000), "ops=uci", "sync=1", S], "shards": 16},
            {"args": ["scen", "family=setups", "count=%d" % (500 if q else 20000), "depth=1", "budget=6", "ops=uci", "sync=1", S], "shards": 16},
        ]
    if pid == "C07":
        return [
            {"args": ["scen", "family=revisits", "search=1", "ops=snap", "walkpos=%d" % (30 if q else 1500), S], "shards": 4},
            {"args": ["scen", "family=searches", "depths=0,1,2", "pools=%s" % ("1,4,16" if q else "1,2,4,16,64"), "walkpos=%d" % (4 if q else 400), S], "shards": 16},
            # set-ups built around delicate arrangements (attacked castling squares, pins, en-passant lines): the answer must be legal
            {"args": ["scen", "family=searches", "depths=1", "pools=1,4", "themed=%d" % (96 if q else 4000), "names=castle-dest", "walkpos=0", "maxpieces=%d" % (10 if q else 16), S], "shards": 16},
            {"args": ["scen", "family=searches", "depths=1,2,3", "pools=1,4", "names=castle-dest,castle-attacked,castle-through,castle-in-check,castle-bfile", "walkpos=0", S], "shards": 8},
            # the same placement at half-move clocks up to and beyond the move-count draw, and after a third registration:
            # the side to move still has its legal moves and the search must answer with one
            {"args": ["scen", "family=searches", "depths=1", "pools=1,4", "clocks=1", "maxpieces=%d" % (6 if q else 32), "walkpos=%d" % (4 if q else 200), S], "shards": 16},
            # one context asked about the same placement with either side to move
            {"args": ["scen", "family=searches", "depths=2", "pools=1,4", "sides=1", "maxpieces=%d" % (8 if q else 32), "walkpos=%d" % (6 if q else 300), S], "shards": 16},
        ] + ([] if q else [
            {"args": ["scen", "family=searches", "depths=3", "pools=1,4,16,64", "maxpieces=12", "walkpos=200", S], "shards": 16},
        ])
    if pid == "C08":
        return [
            {"args": ["scen", "family=searches", "depths=1,2", "pools=1,4,16", "walkpos=%d" % (6 if q else 240), "game=%d" % (3 if q else 8), "maxpieces=%d" % (20 if q else 32), S], "shards": 16},
            {"args": ["scen", "family=searches", "depths=3", "pools=1,4,16", "maxpieces=%d" % (6 if q else 14), "walkpos=%d" % (6 if q else 160), "game=%d" % (2 if q else 6), S], "shards": 16},
            # one context, the same placement searched at several half-move clocks (near the move-count draw)
            {"args": ["scen", "family=searches", "depths=%s" % ("2" if q else "2,3"), "pools=1,4", "clocks=1", "sides=1", "maxpieces=%d" % (5 if q else 10), "walkpos=%d" % (4 if q else 80), S], "shards": 16},
            # depth 5: the first depth at which two root moves' subtrees share a position with two or more plies still to
            # search.  Decided by the harness against a plain minimax over the engine's own generator and leaf score
            # (the extracted model needs ~25 s per depth-5 position; it is the oracle of the thorough tier's sample below)
            {"args": ["scen", "family=searches", "depths=5", "pools=1,4", "selfmm=1", "maxpieces=4", "walkpos=%d" % (256 if q else 1200), "game=%d" % (0 if q else 2), S], "shards": 16},
            # "parallelism changes speed only": perturbed schedules with the cache-write observer (one key, one value), answers equal to the model's minimax
            {"args": ["scen", "family=schedules", "pid=C08", "depths=%s" % ("2" if q else "2,3"), "per=%d" % (4 if q else 10), "walkpos=%d" % (0 if q else 80), "maxpieces=%d" % (4 if q else 12), S], "shards": 16},
            # the score the real watch loop shows for every searched move
            {"args": ["scen", "family=watch", "games=%d" % (2 if q else 16), "limit=%d" % (16 if q else 60), S], "shards": 2},
            # depth 6 in mating nets (lone king v two heavy pieces): forced mates of different lengths inside the horizon
            {"args": ["scen", "family=searches", "depths=6", "pools=1,4", "selfmm=1", "nets=%d" % (32 if q else 160), "walkpos=0", S], "shards": 16},
        ] + ([] if q else [
            {"args": ["scen", "family=searches", "depths=4,5", "pools=1,4", "maxpieces=4", "walkpos=100", S], "shards": 16},
        ])
    if pid == "C09":
        return [
            {"args": ["scen", "family=schedules", "depths=2", "per=%d" % (4 if q else 12), "walkpos=%d" % (3 if q else 200), "maxpieces=%d" % (9 if q else 32), S], "shards": 16},
            # few root moves, one of them mating or stalemating: far more workers than root moves
            {"args": ["scen", "family=schedules", "depths=2,3", "per=3", "pools=1,2,4,16,64", "names=underpromo-mate,single-reply,stalemate,castle-gives-mate,castle-mate,promo-in-check,mated,bare-kings", "walkpos=0", S], "shards": 8},
            {"args": ["scen", "family=schedules", "depths=3", "per=%d" % (3 if q else 12), "walkpos=%d" % (2 if q else 120), "maxpieces=%d" % (4 if q else 12), S], "shards": 16},
        ]
    if pid == "C10":
        return [
            {"args": ["scen", "family=perfts", "depth=%d" % (2 if q else 3), "walkpos=%d" % (16 if q else 200), S], "shards": 16},
            # depth 4 is where two move orders under one root first reach one placement with and without a live en-passant capture
            {"args": ["scen", "family=perfts", "depth=4", "maxpieces=%d" % (5 if q else 7), "walkpos=%d" % (0 if q else 60), S], "shards": 16},
            # castling rights, en-passant captures made and unmade, and later siblings that may still castle
            {"args": ["scen", "family=perfts", "depth=%d" % (3 if q else 4), "names=%s" % ("ep-castle-perft" if q else "ep-castle-perft,castle-promo-rooks,castle-all"), "walkpos=0", S], "shards": 4},
            # the command-line driver itself (`chess count-positions --depth d`: one generator reused across the depths)
            {"args": ["scen", "family=clicount", "depth=%d" % (2 if q else 3), S], "shards": 1},
            # depths 5 (and 6): where one root move's subtree first meets a position again with less depth remaining
            {"args": ["scen", "family=perfts", "depth=%d" % (5 if q else 6), "names=bare-kings,pawn-ending-ep,underpromo-mate,ep-gives-check,ep-evades-check", "walkpos=0", S], "shards": 16},
        ]
    if pid == "C14":
        return [
            {"args": ["scen", "family=cli", "per=%d" % (8 if q else 40), "walkpos=%d" % (40 if q else 1500), S], "shards": 16},
            {"args": ["scen", "family=games", "len=%d" % (10 if q else 60), "allpairs=%d" % (60 if q else 5), "walkpos=%d" % (4 if q else 120), S], "shards": 16},
            # a placement met again with the OTHER side to move inside one Game (triangulation), first position's labels typed again
            {"args": ["scen", "family=games", "len=7", "tempo=1", "names=bare-kings,pawn-ending,endgame-rp,castle-gives-check,single-reply,rooks-same-file,knights-no-shared", "walkpos=%d" % (8 if q else 200), "maxpieces=8", S], "shards": 16},
            # the real `chess play` loop (human v computer) in a child process: the human's typed lines accepted iff legal,
            # the engine's moves legal
            {"args": ["scen", "family=play", "games=%d" % (6 if q else 96), S], "shards": 6},
            # the real `chess pvp` loop in a child process: miniature games typed as coordinates / printed notation with
            # rejected inputs in between; every board it prints and its final verdict are compared with the model
            {"args": ["scen", "family=pvp", "count=%d" % (12 if q else 240), S], "shards": 6},
        ]
    if pid == "C15":
        return [
            {"args": ["scen", "family=engine", "sdepth=1", "reps=%d" % (1 if q else 4), "walkpos=%d" % (16 if q else 300), S], "shards": 16},
            # the engine asked for its move after a triangulation (same placement, other side to move, same Game)
            {"args": ["scen", "family=games", "len=7", "tempo=1", "engine=1", "names=bare-kings,pawn-ending,endgame-rp,castle-gives-check,single-reply,rooks-same-file,knights-no-shared", "walkpos=%d" % (8 if q else 200), "maxpieces=8", S], "shards": 16},
            # the real `chess play` loop: the engine's replies to a typing human
            {"args": ["scen", "family=play", "games=%d" % (4 if q else 64), S], "shards": 4},
            # the real `chess watch` loop (game::computer_vs_computer), stdout captured: every move it prints must be a
            # legal move's notation, it must end exactly when the model's game_ending / the move limit says so, never with an error
            {"args": ["scen", "family=watch", "games=%d" % (6 if q else 48), "limit=%d" % (24 if q else 100), S], "shards": 6},
        ]
    if pid == "C17":
        return [
            {"args": ["scen", "family=repetition", "count=%d" % (480 if q else 6000), "len=%d" % (80 if q else 200), "undo=12", S], "shards": 16},
            {"args": ["scen", "family=apirepetition", "count=%d" % (3 if q else 12), S], "shards": 1},
        ]
    raise KeyError(pid)
