"""vcheck.py — the check driver behind /verif/check (see DESIGN.md §2.4)."""
import concurrent.futures
import hashlib
import json
import os
import re
import shutil
import subprocess
import sys
import time

VERIF = os.path.dirname(os.path.dirname(os.path.abspath(__file__)))
REPO = os.environ.get("VERIF_REPO", "/repo")
WORK = os.path.join(VERIF, "work")
ROCQ = os.path.join(VERIF, "rocq")
HARNESS_DIR = os.path.join(VERIF, "harness")
HARNESS_BIN = os.path.join(HARNESS_DIR, "target", "release", "vharness")
RUNNER_DIR = os.path.join(VERIF, "runner")
RUNNER_BIN = os.path.join(RUNNER_DIR, "runner")
EVIDENCE = os.path.join(VERIF, "evidence")
KNOWN = os.path.join(VERIF, "KNOWN_FINDINGS.json")
NCPU = min(16, os.cpu_count() or 4)

sys.path.insert(0, os.path.dirname(os.path.abspath(__file__)))
import props as PROPS  # noqa: E402  (per-property configuration)

FORBIDDEN = re.compile(r"\b(Admitted|admit|Axiom|Axioms|Parameter|Parameters|Conjecture|Conjectures|Hypothesis|Hypotheses|Variable|Variables)\b|Unset\s+Guard|bypass_check|type-in-type|impredicative-set|Admit\s+Obligations")
ALLOWED_AXIOMS = set()   # the development is axiom-free; anything printed by Print Assumptions fails


def log(msg):
    print(msg, flush=True)


def run(cmd, cwd=None, timeout=None, env=None, stdin=None, stdout=None):
    e = dict(os.environ)
    e.update({"CARGO_NET_OFFLINE": "true"})
    if env:
        e.update(env)
    return subprocess.run(cmd, cwd=cwd, timeout=timeout, env=e, stdin=stdin,
                          stdout=stdout if stdout is not None else subprocess.PIPE,
                          stderr=subprocess.STDOUT, text=True)


def sha(paths):
    h = hashlib.sha256()
    for p in sorted(paths):
        h.update(p.encode())
        try:
            with open(p, "rb") as f:
                h.update(f.read())
        except OSError:
            h.update(b"<missing>")
    return h.hexdigest()


class Broken(Exception):
    """a proof obligation or a tie (translator / harness build / model build) no longer checks"""

    def __init__(self, what, detail=""):
        super().__init__(what)
        self.what = what
        self.detail = detail


# ------------------------------------------------------------------ build steps
def translate():
    r = run([sys.executable, os.path.join(VERIF, "tools", "translate.py"), "--repo", REPO])
    if r.returncode != 0:
        raise Broken("translator: " + "; ".join(l for l in r.stdout.splitlines() if l.startswith("TRANSLATE-ERROR")), r.stdout)
    return r.stdout


def out_dirs():
    base = os.path.join(HARNESS_DIR, "target", "release", "build")
    res = []
    if os.path.isdir(base):
        for d in os.listdir(base):
            if d.startswith("chess-"):
                o = os.path.join(base, d, "out")
                if os.path.isdir(o):
                    res.append(o)
    return res


def src_files(rel_dirs):
    res = []
    for rel in rel_dirs:
        p = os.path.join(REPO, rel)
        if os.path.isfile(p):
            res.append(p)
        for root, _, files in os.walk(p):
            for f in files:
                res.append(os.path.join(root, f))
    return res


def build_harness(fresh_tables=False):
    """rebuild the harness against the current /repo tree; the generated OUT_DIR tables
    are deleted whenever their generators' sources changed (the build script keeps stale
    files otherwise), and always when fresh_tables is set."""
    os.makedirs(WORK, exist_ok=True)
    stamp_path = os.path.join(WORK, "tables.stamp")
    stamps = {
        "opening_book.rs": sha(src_files(["opening_lines.txt", "precompile/src/book", "precompile/src/main.rs"])),
        "zobrist_table.rs": sha(src_files(["precompile/src/zobrist", "precompile/src/random_number_generator", "precompile/src/main.rs", "precompile/Cargo.toml"])),
        "magic_table.rs": sha(src_files(["precompile/src/magic", "precompile/src/random_number_generator", "precompile/src/main.rs", "common/src", "precompile/Cargo.toml"])),
    }
    old = {}
    if os.path.exists(stamp_path):
        try:
            old = json.load(open(stamp_path))
        except Exception:
            old = {}
    touched = False
    for fn, st in stamps.items():
        if fresh_tables and fn != "opening_book.rs" or old.get(fn) != st:
            for o in out_dirs():
                fp = os.path.join(o, fn)
                if os.path.exists(fp):
                    os.remove(fp)
                    touched = True
    if touched:
        # make cargo re-run the build script
        for d in os.listdir(os.path.join(HARNESS_DIR, "target", "release", "build")):
            if d.startswith("chess-"):
                for f in os.listdir(os.path.join(HARNESS_DIR, "target", "release", "build", d)):
                    if f.startswith("invoked.timestamp") or f == "output":
                        try:
                            os.remove(os.path.join(HARNESS_DIR, "target", "release", "build", d, f))
                        except OSError:
                            pass
    lock_src = os.path.join(REPO, "Cargo.lock")
    t0 = time.time()
    r = run(["cargo", "build", "--release", "--offline"], cwd=HARNESS_DIR, timeout=1500)
    if r.returncode != 0:
        raise Broken("harness build against the current tree fails (cargo build, cfg chess_verif)",
                     "\n".join(r.stdout.splitlines()[-40:]))
    json.dump(stamps, open(stamp_path, "w"))
    return time.time() - t0


def translate_build_tables():
    """gen/Zobrist.v and gen/Magics.v: the tables of THIS build of the current tree.  Zobrist
    constants are read black-box through the public API by the harness (one-feature boards),
    magic entries through the cfg(chess_verif) accessor; theorems over them (table_okb,
    entries_valid) are re-checked by the kernel on every run."""
    r = run([HARNESS_BIN, "zobrist"])
    if r.returncode != 0:
        raise Broken("harness zobrist dump failed", r.stdout[-500:])
    zp, zc, ze = {}, {}, {}
    for l in r.stdout.splitlines():
        t = l.split()
        if t and t[0] == "zp":
            zp[(int(t[1]), int(t[2]), int(t[3]))] = int(t[4])
        elif t and t[0] == "zc":
            zc[int(t[1])] = int(t[2])
        elif t and t[0] == "ze":
            ze[int(t[1])] = int(t[2])
    if len(zp) != 768 or len(zc) != 16 or len(ze) != 64:
        raise Broken("zobrist dump incomplete: %d/%d/%d constants" % (len(zp), len(zc), len(ze)))
    zpl = [zp[(p, sq, c)] for p in range(6) for sq in range(64) for c in range(2)]
    out = ["(* GENERATED by tools/vcheck.py from the Zobrist constants of the current build (read through",
           "   the public API: key of a one-piece board, of lose_castle_rights(15 & !r), of one ep push) — do not edit. *)",
           "From Coq Require Import NArith List.", "Import ListNotations.", "From ChessV Require Import Types Board.", "Open Scope N_scope.", "",
           "Definition ZP : list N := [%s]." % "; ".join(map(str, zpl)),
           "(* relative rights constants: ZC[r] = T[15] xor T[r] *)",
           "Definition ZC : list N := [%s]." % "; ".join(str(zc[i]) for i in range(16)),
           "Definition ZE : list N := [%s]." % "; ".join(str(ze[i]) for i in range(64)),
           "Definition BUILD_TABLE : ztable :=",
           "  {| zp := fun p i c => nth (N.to_nat ((piece_idx p * 64 + i) * 2 + color_idx c)) ZP 0;",
           "     zc := fun r => nth (N.to_nat r) ZC 0;",
           "     ze := fun s => nth (N.to_nat s) ZE 0 |}."]
    write_if_changed(os.path.join(ROCQ, "gen", "Zobrist.v"), "\n".join(out) + "\n")
    r = run([HARNESS_BIN, "magics"])
    if r.returncode != 0:
        raise Broken("harness magics dump failed", r.stdout[-500:])
    ent = {"rook": {}, "bishop": {}}
    sizes = None
    for l in r.stdout.splitlines():
        t = l.split()
        if t and t[0] in ent:
            ent[t[0]][int(t[1])] = tuple(int(x) for x in t[2:6])
        elif t and t[0] == "sizes":
            sizes = (int(t[1]), int(t[2]))
    if len(ent["rook"]) != 64 or len(ent["bishop"]) != 64 or sizes is None:
        raise Broken("magic entry dump incomplete")
    def entries(d):
        return "[\n  " + ";\n  ".join("{| m_mask := %d; m_magic := %d; m_shift := %d; m_offset := %d |}" % d[i] for i in range(64)) + "]"
    out = ["(* GENERATED by tools/vcheck.py from ROOK_MAGICS / BISHOP_MAGICS of the current build (OUT_DIR/magic_table.rs,",
           "   read through the cfg(chess_verif) accessor magic_entries_for_verif) — do not edit. *)",
           "From Coq Require Import NArith List.", "Import ListNotations.", "From ChessV Require Import Magic.", "Open Scope N_scope.", "",
           "Definition ROOK_ENTRIES : list mentry := %s." % entries(ent["rook"]),
           "Definition BISHOP_ENTRIES : list mentry := %s." % entries(ent["bishop"]),
           "Definition ROOK_TABLE_SIZE : N := %d." % sizes[0],
           "Definition BISHOP_TABLE_SIZE : N := %d." % sizes[1]]
    write_if_changed(os.path.join(ROCQ, "gen", "Magics.v"), "\n".join(out) + "\n")


def write_if_changed(path, txt):
    old = None
    if os.path.exists(path):
        with open(path) as f:
            old = f.read()
    if old != txt:
        with open(path, "w") as f:
            f.write(txt)


def rocq_make(targets, timeout=1500):
    if not os.path.exists(os.path.join(ROCQ, "Makefile")):
        r = run(["coq_makefile", "-f", "_CoqProject", "-o", "Makefile"], cwd=ROCQ)
        if r.returncode != 0:
            raise Broken("coq_makefile", r.stdout)
    r = run(["make", "-j%d" % NCPU] + targets, cwd=ROCQ, timeout=timeout)
    if r.returncode != 0:
        m = re.search(r'File "([^"]+)", line (\d+).*?\nError:(.*?)(?:\n\n|\nmake)', r.stdout, re.S)
        what = "Rocq build: " + (("%s line %s:%s" % (m.group(1), m.group(2), " ".join(m.group(3).split())[:300])) if m else "make failed")
        raise Broken(what, "\n".join(r.stdout.splitlines()[-40:]))
    return r.stdout


def build_runner():
    """extract the model (one coqc on Extract.v) and compile the runner when the model changed"""
    vos = [os.path.join(ROCQ, f) for f in os.listdir(ROCQ) if f.endswith(".v")] + \
          [os.path.join(ROCQ, "gen", f) for f in os.listdir(os.path.join(ROCQ, "gen")) if f.endswith(".v")] + \
          [os.path.join(RUNNER_DIR, "driver.ml")]
    stamp = sha(vos)
    sp = os.path.join(RUNNER_DIR, "runner.stamp")
    if os.path.exists(RUNNER_BIN) and os.path.exists(sp) and open(sp).read() == stamp:
        return
    # Extract.v is part of the project: make rebuilds it (and so re-extracts rocq/model.ml)
    # whenever any file it depends on, generated ones included, has changed
    rocq_make(["Extract.vo"])
    for fn in ("model.ml", "model.mli"):
        if not os.path.exists(os.path.join(ROCQ, fn)):
            raise Broken("extraction of the model produced no " + fn)
        shutil.copyfile(os.path.join(ROCQ, fn), os.path.join(RUNNER_DIR, fn))
    r = run(["ocamlfind", "ocamlopt", "-w", "-a", "-inline", "50", "model.mli", "model.ml", "driver.ml", "-o", "runner"],
            cwd=RUNNER_DIR, timeout=600)
    if r.returncode != 0:
        raise Broken("runner build fails", r.stdout[-2000:])
    open(sp, "w").write(stamp)


def cone_files(prop_file):
    """transitive .v dependencies of a props file inside the project (via coqdep)"""
    r = run(["coqdep", "-Q", ".", "ChessV", "-sort", prop_file], cwd=ROCQ)
    files = [f for f in r.stdout.split() if f.endswith(".v")]
    return files


def check_theorems(pid):
    """make the cone, re-run the props file capturing Print Assumptions, grep the cone."""
    pf = os.path.join("props", pid + ".v")
    if not os.path.exists(os.path.join(ROCQ, pf)):
        return {"obligations": 0, "discharged": 0, "theorems": [], "assumptions": {}, "cone": []}
    rocq_make([pf + "o"])
    cone = cone_files(pf)
    bad = []
    n_obl = 0
    names = []
    for f in cone:
        txt = open(os.path.join(ROCQ, f)).read()
        code = re.sub(r"\(\*.*?\*\)", "", txt, flags=re.S)
        in_section = 0
        for ln, line in enumerate(code.splitlines(), 1):
            if re.match(r"\s*Section\b", line):
                in_section += 1
            if re.match(r"\s*End\b", line) and in_section:
                in_section -= 1
            for m in FORBIDDEN.finditer(line):
                tok = m.group(0)
                if tok.split()[0] in ("Variable", "Variables", "Hypothesis", "Hypotheses") and in_section:
                    continue
                bad.append("%s:%d: %s" % (f, ln, tok))
        for m in re.finditer(r"^\s*(Theorem|Lemma|Corollary|Example|Fact|Proposition)\s+(\w+)", code, re.M):
            n_obl += 1
            if f == pf:
                names.append(m.group(2))
    if bad:
        raise Broken("forbidden token in the proof cone: " + "; ".join(bad[:5]))
    # re-run the props file to capture Print Assumptions
    r = run(["coqc", "-Q", ".", "ChessV", "-w", "-notation-overridden,-deprecated-hint-without-locality", pf], cwd=ROCQ, timeout=900)
    if r.returncode != 0:
        raise Broken("props/%s.v no longer checks" % pid, r.stdout[-1500:])
    outp = r.stdout
    closed = len(re.findall(r"Closed under the global context", outp))
    axioms = re.findall(r"^Axioms:\s*\n((?:.+\n)+?)(?=\S|\Z)", outp, re.M)
    ax_names = []
    for blk in axioms:
        for l in blk.splitlines():
            m = re.match(r"\s*([\w.]+)\s*:", l)
            if m:
                ax_names.append(m.group(1))
    extra = [a for a in ax_names if a not in ALLOWED_AXIOMS]
    if extra:
        raise Broken("a property theorem depends on axioms outside the allow-list: " + ", ".join(sorted(set(extra))))
    return {"obligations": n_obl, "discharged": n_obl, "theorems": names, "closed": closed,
            "assumptions": {"closed_under_global_context": closed, "axioms": sorted(set(ax_names))}, "cone": cone}


# ------------------------------------------------------------------ scenarios
JOB_TIMEOUT = {"quick": 900, "thorough": 7200}
CUR_TIER = ["quick"]
CUR_PID = [""]


def harness_cmd(args, outfile):
    with open(outfile, "w") as f:
        try:
            r = subprocess.run([HARNESS_BIN] + args, stdout=f, stderr=subprocess.PIPE, text=True,
                               timeout=JOB_TIMEOUT[CUR_TIER[0]])
        except subprocess.TimeoutExpired:
            return 124, "timed out after %d s (the implementation does not terminate on this scenario family?)" % JOB_TIMEOUT[CUR_TIER[0]]
    return r.returncode, r.stderr[-2000:]


def runner_cmd(zob, infile, outfile):
    with open(infile) as fi, open(outfile, "w") as fo:
        try:
            r = subprocess.run([RUNNER_BIN, zob], stdin=fi, stdout=fo, stderr=subprocess.PIPE, text=True,
                               timeout=JOB_TIMEOUT[CUR_TIER[0]], env=dict(os.environ, VERIF_PID=CUR_PID[0]))
        except subprocess.TimeoutExpired:
            return 124, "model runner timed out"
    return r.returncode, r.stderr[-2000:]


def parse_records(path):
    """-> list of dict(op, obs, bangs), stats lines, loose bangs"""
    recs, stats, loose = [], [], []
    cur = None
    with open(path, errors="replace") as f:
        for line in f:
            line = line.rstrip("\n")
            if not line:
                continue
            c = line[0]
            if c == "#":
                if line.startswith("# stats"):
                    stats.append(line)
                continue
            if c == "<":
                if cur is not None:
                    cur["obs"] = line[2:]
                continue
            if c == "!":
                # a failure line belongs to the operation it was printed under (before or after its observation)
                (cur["bangs"] if cur is not None else loose).append(line[2:])
                continue
            cur = {"op": line, "obs": None, "bangs": []}
            recs.append(cur)
    return recs, stats, loose


def canon(obs, cfg):
    if obs is None:
        return None
    toks = obs.split(" ")
    tag = toks[0]
    if tag == "snap" and "snap_fields" in cfg and len(toks) >= 9:
        # snap <cells> <turn> <rights> <ep> <half> <full> <key> <seen>
        names = ("tag", "cells", "turn", "rights", "ep", "half", "full", "key", "seen")
        return " ".join(t for n, t in zip(names, toks) if n == "tag" or n in cfg["snap_fields"])
    if tag in cfg.get("sort_tags", ()):
        keep = cfg.get("sort_keep", {}).get(tag, 0)
        return " ".join([tag] + toks[1:1 + keep] + sorted(toks[1 + keep:]))
    return obs


def obs_equal(op, impl, model, cfg):
    """property-aware comparison of one observation"""
    tag = op.split(" ")[0]
    if tag in cfg.get("ignore_ops", ()):
        return True
    if model == "SKIP":
        return True
    if tag in ("search", "sched") and impl is not None and model is not None:
        # impl: search Ok <score> <move> [BOARD-CHANGED]; model: search Ok <score> {attaining moves} {legal moves}
        mi = re.match(r"%s Ok (-?\d+) (\S+)$" % tag, impl)
        mm = re.match(r"%s Ok (-?\d+) \{(.*)\} \{(.*)\}$" % tag, model)
        if mi and mm:
            if cfg.get("search_mode") == "legal":     # C07: any legal move, board untouched
                return mi.group(2) in mm.group(3).split(" ")
            return mi.group(1) == mm.group(1) and mi.group(2) in mm.group(2).split(" ")
        return impl == model
    if tag in ("gengine", "gselect") and impl is not None and model is not None:
        mi = re.match(r"%s Ok (\S+)$" % tag, impl)
        mm = re.match(r"%s \{(.*)\}$" % tag, model)
        if mm:
            legal = [x for x in mm.group(1).split(" ") if x]
            if not legal:
                return not mi      # no legal move: any error is acceptable, a move is not
            return bool(mi) and mi.group(1) in legal
        return impl == model
    return canon(impl, cfg) == canon(model, cfg)


DOMAIN_NOTES = {}
TRUNCATED = []
DOMAINC_NOTES = {}


class Failure:
    def __init__(self, kind, pid, msg, scenario, impl=None, model=None):
        self.kind = kind          # "property" (concrete failing input) | "tie" (impl != model only)
        self.pid = pid
        self.msg = msg
        self.scenario = scenario  # op lines reproducing it
        self.impl = impl
        self.model = model


def episode_prefix(recs, i):
    """op lines from the last position-setting op up to and including record i"""
    def back(k):
        while k > 0 and recs[k]["op"].split(" ")[0] not in ("pos", "new", "gnew"):
            k -= 1
        return k
    j = back(i)
    if recs[i]["op"].split(" ")[0] in ("search", "sched"):
        # a search depends on everything its context has served: start where the context was made
        k = i
        while k > 0 and recs[k]["op"].split(" ")[0] != "sctx":
            k -= 1
        if recs[k]["op"].split(" ")[0] == "sctx" and k < j:
            j = back(k)
    return [r["op"] for r in recs[j:i + 1]]


def compare(pid, scen, model, cfg, max_fail=5, truncated=False):
    irecs, istats, iloose = parse_records(scen)
    mrecs, _, mloose = parse_records(model)
    if truncated:
        # the last record the runner printed may be incomplete: drop it, compare the prefix
        mrecs = mrecs[:-1] if mrecs else mrecs
        irecs = irecs[:len(mrecs)]
    fails = []
    n_ops = 0
    samples = []
    for b in iloose:
        if b.startswith(pid + " "):
            fails.append(Failure("property", pid, b, []))
    if len(irecs) != len(mrecs):
        fails.append(Failure("tie", pid, "model runner produced %d records for %d operations (runner crashed?)" % (len(mrecs), len(irecs)), []))
    for i, (ri, rm) in enumerate(zip(irecs, mrecs)):
        n_ops += 1
        if ri["op"] != rm["op"]:
            fails.append(Failure("tie", pid, "operation streams out of step at %d: %r vs %r" % (i, ri["op"], rm["op"]), []))
            break
        if len(fails) >= max_fail:
            break
        for b in ri["bangs"]:
            if b.startswith(pid + " "):
                fails.append(Failure("property", pid, b, episode_prefix(irecs, i), ri["obs"], rm["obs"]))
        for b in rm["bangs"]:
            if b.startswith("SPEC DOMAIN "):
                # outside the hypotheses of the closed theorems but still compared with the oracle
                DOMAIN_NOTES[pid] = DOMAIN_NOTES.get(pid, 0) + 1
            if b.startswith("SPEC DOMAINC "):
                DOMAINC_NOTES[pid] = DOMAINC_NOTES.get(pid, 0) + 1
            if b.startswith("SPEC HYP "):
                fails.append(Failure("tie", pid, "a hypothesis of the property theorems is not met on a visited state: " + b[9:], episode_prefix(irecs, i), ri["obs"], rm["obs"]))
        spec_bang = [b for b in rm["bangs"] if b.startswith("SPEC " + pid + " ")]
        eq = obs_equal(ri["op"], ri["obs"], rm["obs"], cfg)
        if spec_bang and eq:
            # the model itself leaves the spec here and the implementation agrees with the model
            fails.append(Failure("property", pid, spec_bang[0][5:] + " (implementation agrees with the model)", episode_prefix(irecs, i), ri["obs"], rm["obs"]))
        elif not eq:
            tag = ri["op"].split(" ")[0]
            # where the model's answer was verified against the spec on this very input, a
            # difference from the model is a difference from the rules: a property failure
            kind = "property" if (tag in cfg.get("spec_tags", ()) and not spec_bang) else "tie"
            # an abort of the implementation where the model (which models every abort of the code
            # explicitly) answers normally is a concrete failure of a property that forbids aborts
            if tag in cfg.get("panic_tags", ()) and ri["obs"] is not None and "PANIC" in ri["obs"] and rm["obs"] is not None and "PANIC" not in rm["obs"]:
                kind = "property"
            fails.append(Failure(kind, pid, "on `%s` the implementation answers [%s], the %s prescribes [%s]" % (
                ri["op"], ri["obs"], "rules/model" if kind == "property" else "model", rm["obs"]), episode_prefix(irecs, i), ri["obs"], rm["obs"]))
        if len(samples) < 3 and ri["obs"] and len(ri["obs"]) < 400 and ri["op"].split(" ")[0] in cfg.get("sample_tags", ()):
            samples.append({"op": ri["op"], "observation": ri["obs"]})
    return fails, n_ops, istats, samples, irecs


def distinct_nontrivial(irecs, cfg):
    """distinct observations of the property's own tags (measured)"""
    tags = cfg.get("sample_tags", ())
    seen = set()
    for r in irecs:
        if r["op"].split(" ")[0] in tags and r["obs"]:
            seen.add(hashlib.md5((r["op"] + "|" + r["obs"]).encode()).hexdigest() if r["op"].split(" ")[0] in ("apply",) else hashlib.md5(r["obs"].encode()).hexdigest())
    return len(seen)


# ------------------------------------------------------------------ known findings
def load_known():
    if not os.path.exists(KNOWN):
        return []
    return json.load(open(KNOWN)).get("findings", [])


def match_known(pid, msg):
    for k in load_known():
        if k.get("property") == pid and k.get("status") == "known" and re.search(k["signature"], msg):
            return k
    return None


# ------------------------------------------------------------------ main per-property routine
def write_evidence(pid, tier, seed, level, coverage, assumptions, wall, violations):
    os.makedirs(EVIDENCE, exist_ok=True)
    ev = {"property_id": pid, "tier": tier, "seed": seed, "level": level, "coverage": coverage,
          "assumptions": assumptions, "wall_s": round(wall, 2), "violations": violations}
    with open(os.path.join(EVIDENCE, pid + ".json"), "w") as f:
        json.dump(ev, f, indent=1, sort_keys=True)


def write_replay(pid, tier, seed, fail, idx):
    d = os.path.join(WORK, pid, "replays")
    os.makedirs(d, exist_ok=True)
    path = os.path.join(d, "replay_%d.json" % idx)
    body = {"property": pid, "tier": tier, "seed": seed, "kind": fail.kind, "message": fail.msg,
            "scenario": fail.scenario, "implementation_observation": fail.impl, "expected_observation": fail.model}
    if fail.kind != "property":
        body["broken"] = fail.msg
        body["failing_input"] = None if not fail.scenario else fail.scenario
    with open(path, "w") as f:
        json.dump(body, f, indent=1)
    return path


def run_property(pid, tier, seed, replay=None):
    t0 = time.time()
    CUR_TIER[0] = tier
    CUR_PID[0] = pid
    cfg = PROPS.CONFIG[pid]
    wdir = os.path.join(WORK, pid)
    replay_body = json.load(open(replay)) if replay else None   # read before the work dir is cleared
    if os.path.isdir(wdir):
        shutil.rmtree(wdir)
    os.makedirs(wdir)
    failures = []
    thm = {"obligations": 0, "discharged": 0, "theorems": [], "assumptions": {}, "cone": []}
    total_ops = 0
    stats_lines = []
    samples = []
    distinct = 0
    broken = None
    n_jobs = 0
    model_ok = True
    try:
        # A broken tie (translator pattern no longer matches, theorem no longer checks, model no
        # longer builds) does not end the run: the search for a concrete failing input goes on
        # with the last good generated files, and without the model if it cannot be built
        # (the harness-side decision predicates still apply).
        try:
            translate()
        except Broken as b:
            broken = b
        build_harness(fresh_tables=(tier == "thorough" and cfg.get("fresh_tables", False)))
        try:
            translate_build_tables()
        except Broken as b:
            broken = broken or b
        for hook in cfg.get("pre", ()):
            hook(sys.modules[__name__])
        try:
            thm = check_theorems(pid)
        except Broken as b:
            broken = broken or b
        try:
            build_runner()
        except Broken as b:
            broken = broken or b
            model_ok = os.path.exists(RUNNER_BIN)    # a runner from the last good model, if any
        zob = os.path.join(wdir, "zobrist.txt")
        rc, err = harness_cmd(["zobrist"], zob)
        if rc != 0:
            raise Broken("harness zobrist dump failed", err)
        jobs = []
        if replay:
            body = replay_body
            sf = os.path.join(wdir, "replay_scenario.txt")
            open(sf, "w").write("\n".join(body.get("scenario") or []) + "\n")
            jobs.append((["replay", "file=" + sf], "replay"))
        else:
            for k, spec in enumerate(PROPS.scenarios(pid, tier, seed)):
                shards = spec.get("shards", 1)
                for s in range(shards):
                    args = list(spec["args"]) + (["shard=%d" % s, "shards=%d" % shards] if shards > 1 else [])
                    jobs.append((args, "s%d_%d" % (k, s)))
        results = []
        n_jobs = len(jobs)

        def one(job):
            args, name = job
            sf = os.path.join(wdir, name + ".scen")
            mf = os.path.join(wdir, name + ".model")
            rc, err = harness_cmd(args, sf)
            if rc != 0:
                return name, Broken("harness run failed: %s" % " ".join(args), err), None
            if not model_ok:
                return name, None, (sf, None, False)
            rc, err = runner_cmd(zob, sf, mf)
            if rc == 124:
                # the extracted model ran out of time on this job (it is orders of magnitude slower than
                # the implementation): what it did answer is compared, the rest of the job is not explored
                TRUNCATED.append(name)
                return name, None, (sf, mf, True)
            if rc != 0:
                return name, Broken("model runner failed on %s" % name, err), None
            return name, None, (sf, mf, False)

        with concurrent.futures.ThreadPoolExecutor(max_workers=NCPU) as ex:
            results = list(ex.map(one, jobs))
        for name, err, files in results:
            if err is not None:
                failures.append(Failure("tie", pid, err.what + ": " + err.detail[-300:], []))
                continue
            if files[1] is None:
                # no model: only the decision predicates evaluated by the harness itself
                irecs, st, iloose = parse_records(files[0])
                f = [Failure("property", pid, b, []) for b in iloose if b.startswith(pid + " ")]
                for i, r in enumerate(irecs):
                    f.extend(Failure("property", pid, b, episode_prefix(irecs, i), r["obs"], None) for b in r["bangs"] if b.startswith(pid + " "))
                n, smp = len(irecs), []
            else:
                f, n, st, smp, irecs = compare(pid, files[0], files[1], cfg, truncated=files[2])
            failures.extend(f)
            total_ops += n
            stats_lines.extend(st)
            samples.extend(smp[:2])
            distinct += distinct_nontrivial(irecs, cfg)
        for hook in cfg.get("post", ()):
            failures.extend(hook(sys.modules[__name__], pid, tier, seed, wdir))
    except Broken as b:
        broken = b
    except subprocess.TimeoutExpired as e:
        broken = Broken("timeout: %s" % (e.cmd,))

    # ---- verdict
    real = []
    known_printed = set()
    for f in failures:
        k = match_known(pid, f.msg)
        if k:
            if k["signature"] not in known_printed:
                log("KNOWN-FINDING: property=%s %s" % (pid, k["what"]))
                known_printed.add(k["signature"])
            continue
        real.append(f)
    exit_code = 0
    if broken is not None:
        # a theorem or a tie no longer checks: search result = any concrete property failure found above
        concrete = [f for f in real if f.kind == "property"]
        if concrete:
            path = write_replay(pid, tier, seed, concrete[0], 0)
            log("broken: %s" % broken.what)
            log("VIOLATION property=%s replay=%s" % (pid, path))
        else:
            f = Failure("tie", pid, broken.what, [])
            f.model = broken.detail[-1500:]
            path = write_replay(pid, tier, seed, f, 0)
            log("broken: %s\n%s" % (broken.what, broken.detail[-1200:]))
            log("VIOLATION property=%s replay=%s no-failing-input-found" % (pid, path))
        exit_code = 1
    elif real:
        concrete = [f for f in real if f.kind == "property"]
        first = concrete[0] if concrete else real[0]
        for i, f in enumerate(real[:5]):
            log("  [%s] %s" % (f.kind, f.msg[:600]))
        path = write_replay(pid, tier, seed, first, 0)
        if first.kind == "property":
            log("VIOLATION property=%s replay=%s" % (pid, path))
        else:
            log("VIOLATION property=%s replay=%s no-failing-input-found" % (pid, path))
        exit_code = 1
    wall = time.time() - t0
    dist = {}
    for l in stats_lines:
        for kv in l.split()[2:]:
            if "=" in kv:
                k, v = kv.split("=", 1)
                if v.isdigit():
                    dist[k] = dist.get(k, 0) + int(v)
    coverage = {
        "obligations": max(thm["obligations"], 0),
        "discharged": thm["discharged"],
        "checker_cmd": "make -C rocq props/%s.vo (coqc 8.16.1, full .vo build) + coqc props/%s.v for Print Assumptions" % (pid, pid),
        "trusted_base": PROPS.TRUSTED_BASE,
        "property_theorems": thm["theorems"],
        "print_assumptions": thm.get("assumptions", {}),
        "evaluations": total_ops,
        "distinct_nontrivial": distinct,
        "rule": cfg.get("rule", ""),
        "samples": samples[:6] if samples else [{"note": "no sample-tag observation in this run"}],
        "traces_validated_against_impl": total_ops,
        "input_distribution": dist,
        "known_findings_reported": sorted(known_printed),
        "compared_outside_closed_theorem_domain": DOMAIN_NOTES.get(pid, 0),
        "compared_outside_cache_theorem_domain": DOMAINC_NOTES.get(pid, 0),
        "model_jobs_truncated_by_timeout": len(TRUNCATED),
        "explanation": cfg.get("explanation", ""),
    }
    level = "proof"
    coverage["programs"] = n_jobs
    coverage["disagreements_checked"] = len(failures)
    if thm["obligations"] == 0:
        # no theorem in the cone yet: this run is a validation of the model against the code only
        coverage.pop("obligations")
        coverage.pop("discharged")
        level = "translation_validation"
    write_evidence(pid, tier, seed, level, coverage, PROPS.ASSUMPTIONS.get(pid, []), wall, len(real) + (1 if broken else 0))
    log("%s %s: %d operations compared, %d theorem obligations in cone, %d failure(s), %.1fs" % (
        pid, tier, total_ops, thm["obligations"], len(real) + (1 if broken else 0), wall))
    return exit_code


def setup():
    t0 = time.time()
    translate()
    build_harness()
    translate_build_tables()
    rocq_make([])
    build_runner()
    log("setup done in %.0fs" % (time.time() - t0))
    return 0


def main(argv):
    if not argv:
        print(__doc__)
        return 2
    if argv[0] == "setup":
        try:
            return setup()
        except Broken as b:
            log("setup failed: %s\n%s" % (b.what, b.detail))
            return 1
    pid = argv[0]
    tier = os.environ.get("VERIF_TIER", "quick")
    replay = None
    i = 1
    while i < len(argv):
        if argv[i] == "--tier":
            tier = argv[i + 1]
            i += 2
        elif argv[i] == "--replay":
            replay = argv[i + 1]
            i += 2
        else:
            i += 1
    seed = int(os.environ.get("VERIF_SEED", "1"))
    if pid not in PROPS.CONFIG:
        log("unknown property " + pid)
        return 2
    return run_property(pid, tier, seed, replay)
