#!/bin/bash
# run_all.sh <tier> [ids...] — setup, then every check of the tier, one summary line each
TIER=${1:-quick}; shift
IDS=${@:-C01 C02 C03 C04 C05 C06 C07 C08 C09 C10 C11 C12 C13 C14 C15 C16 C17 C18 C19}
./check setup || exit 1
for id in $IDS; do
  S=$(date +%s)
  OUT=$(./check $id --tier $TIER 2>&1); RC=$?
  echo "$OUT" | grep -E "^VIOLATION|^KNOWN-FINDING|^\s+\[|^broken" | cut -c1-400 | head -8
  echo "$OUT" | tail -1
  echo "== $id $TIER exit=$RC wall=$(( $(date +%s) - S ))s"
done
