#!/bin/bash
# confirm_seed.sh <ID> [<name>] — confirm a seeded change produced in the scratch worktree /tmp/mut/<ID>:
#   with the patch: crate builds, the existing suite passes, the demonstration fails;
#   without it: the demonstration passes.  On success copies it to /verif/seeded/<name>/.
ID=$1; NAME=${2:-$ID}; M=${MUT:-/tmp/mut}; W=$M/$ID; O=$M/${ID}_out
export CARGO_NET_OFFLINE=true
cd $W || exit 2
git checkout -q -- . ; git apply $O/patch.diff || { echo "patch does not apply"; exit 2; }
mkdir -p tests; [ -f $O/demo_test.rs ] && cp $O/demo_test.rs tests/demo_test.rs
# the build script keeps generated tables: force regeneration of the book when the patch touches its sources
regen() { if grep -q "opening_lines.txt\|precompile/" $O/patch.diff; then rm -f target/*/build/chess-*/out/*.rs target/*/*/build/chess-*/out/*.rs; fi; }
DEMOENV=""
if grep -q "chess_verif" $O/demo_test.rs; then DEMOENV="RUSTFLAGS=--cfg=chess_verif CARGO_TARGET_DIR=target/verifcfg"; fi
regen
echo "== existing suite with patch"; cargo test --workspace --no-fail-fast --offline --lib --bins 2>&1 | grep -E "^test result" | head -3
SUITE=$(cargo test --workspace --no-fail-fast --offline --lib --bins 2>&1 | grep -E "^test result: ok. 90 passed" | wc -l)
echo "== demo with patch"; env $DEMOENV cargo test --offline --test demo_test 2>&1 | grep -E "^test result|panicked" | head -5
WITH=$(env $DEMOENV cargo test --offline --test demo_test 2>&1 | grep -cE "^test result: FAILED")
git apply -R $O/patch.diff; regen
echo "== demo without patch"; env $DEMOENV cargo test --offline --test demo_test 2>&1 | grep -E "^test result" | head -3
WITHOUT=$(env $DEMOENV cargo test --offline --test demo_test 2>&1 | grep -cE "^test result: ok")
git apply $O/patch.diff; regen
echo "suite_ok=$SUITE demo_fails_with=$WITH demo_passes_without=$WITHOUT"
if [ "$SUITE" = 1 ] && [ "$WITH" -ge 1 ] && [ "$WITHOUT" -ge 1 ]; then
  mkdir -p /verif/seeded/$NAME; cp $O/patch.diff $O/demo_test.rs /verif/seeded/$NAME/; cp $O/meta.json /verif/seeded/$NAME/meta.agent.json
  echo CONFIRMED
else echo NOT-CONFIRMED; exit 1; fi
