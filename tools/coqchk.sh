#!/bin/bash
# coqchk.sh — re-check every compiled property file and everything it depends on with Coq's
# independent checker and print the axioms / unsafe features they rely on (≈25 min on one core).
# Run after `./check setup` (full .vo build).  Not part of the registered commands.
cd "$(dirname "$0")/../rocq" || exit 2
MODS=$(for i in $(seq -w 1 19); do echo ChessV.props.C$i; done)
timeout 7200 coqchk -silent -o -Q . ChessV $MODS
