#!/bin/bash
# run_seed.sh <seed-name> <check-id>... — apply /verif/seeded/<name>/patch.diff to /repo, run the
# quick checks listed, record which ones report a violation, and undo the patch straight afterwards.
NAME=$1; shift
S=/verif/seeded/$NAME
cd /repo || exit 2
if ! git diff --quiet; then echo "/repo has uncommitted changes"; exit 2; fi
git apply $S/patch.diff || { echo "patch does not apply to /repo HEAD"; exit 2; }
# the evidence files belong to runs on the unchanged tree: keep them out of reach of the seeded runs
EVB=$(mktemp -d /tmp/evidence_backup.XXXXXX); cp -a /verif/evidence/. $EVB/
trap 'git -C /repo checkout -- . ; rm -rf /verif/evidence; mkdir -p /verif/evidence; cp -a $EVB/. /verif/evidence/; rm -rf $EVB; echo "(patch undone, evidence restored)"' EXIT
cd /verif
RES=""
for id in "$@"; do
  OUT=$(./check $id --tier quick 2>&1); RC=$?
  V=$(echo "$OUT" | grep -E "^VIOLATION" | head -1)
  echo "[$NAME] $id exit=$RC ${V:-no violation line}"
  echo "$OUT" | grep -E "^\s+\[(property|tie)\]|^broken" | head -3
  mkdir -p $S/runs; echo "$OUT" | tail -15 > $S/runs/$id.log
  [ -n "$V" ] && cp $(echo "$V" | sed -E 's/.*replay=([^ ]+).*/\1/') $S/runs/$id.replay.json 2>/dev/null
  RES="$RES $id:$RC"
done
echo "RESULT $NAME$RES"
